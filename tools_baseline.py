"""Runs the repo's pinned baseline and reports stable_pass tests that no longer pass."""
import json, subprocess, sys, os, tempfile
import xml.etree.ElementTree as ET
base = json.load(open('/root/.vp/BASELINE.json'))
fd, xml = tempfile.mkstemp(suffix='.xml'); os.close(fd)
cmd = base['cmd'].replace('<file>', xml)
env = dict(os.environ); env.pop('GOOGLE_FLAX_VERIF', None)
p = subprocess.run(cmd, shell=True, stdout=subprocess.PIPE, stderr=subprocess.STDOUT, env=env)
passed = set()
for tc in ET.parse(xml).getroot().iter('testcase'):
  if not any(ch.tag in ('failure', 'error', 'skipped') for ch in tc):
    passed.add(f"{tc.get('classname')}::{tc.get('name')}")
os.unlink(xml)
missing = [t for t in base['stable_pass'] if t not in passed]
print('stable_pass', len(base['stable_pass']), 'passed now', len(passed), 'missing', len(missing))
for t in missing[:40]: print('  MISSING', t)
sys.exit(1 if missing else 0)
