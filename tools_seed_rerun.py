"""Re-runs the registered quick check of every seeded change against /repo
with the change applied (and reverts it): the regression suite of the checks.

usage: tools_seed_rerun.py [name ...]      (default: every seeded/<name>)
Writes seeded/<name>/meta.json["final"] and prints one line per change.
Exit 1 if a change is no longer caught.
"""
import json, os, subprocess, sys, time

ROOT = os.path.dirname(os.path.abspath(__file__))


def sh(cmd, cwd=None, timeout=7200):
  p = subprocess.run(cmd, shell=True, cwd=cwd, timeout=timeout,
                     stdout=subprocess.PIPE, stderr=subprocess.STDOUT)
  return p.returncode, p.stdout.decode(errors='replace')


def main():
  args = sys.argv[1:]
  # --scratch: apply each change in a scratch worktree of /repo HEAD and point
  # the checks at it (VERIF_FLAX_TREE) instead of patching /repo itself, so
  # that /repo stays free for other work while the regression suite runs
  scratch = None
  if '--scratch' in args:
    args.remove('--scratch')
    scratch = f'/tmp/wt/rerun_{os.getpid()}'
    rc, o = sh(f'git -C /repo worktree add -q {scratch} HEAD')
    assert rc == 0, o
  names = args or sorted(os.listdir(os.path.join(ROOT, 'seeded')))
  tree = scratch or '/repo'
  rc, o = sh(f'git -C {tree} status --short')
  assert not o.strip(), f'{tree} not clean: {o}'
  missed = []
  try:
    return run(names, tree, scratch, missed)
  finally:
    if scratch:
      sh(f'git -C /repo worktree remove --force {scratch}')


def run(names, tree, scratch, missed):
  for name in names:
    d = os.path.join(ROOT, 'seeded', name)
    mp = os.path.join(d, 'meta.json')
    if not os.path.exists(mp):
      continue
    meta = json.load(open(mp))
    props = meta.get('caught_by') or [meta['property']]
    rc, o = sh(f'git -C {tree} apply {os.path.join(d, "patch.diff")}')
    if rc != 0:
      # (written against an earlier HEAD: context may have moved)
      rc, o = sh(f'git -C {tree} apply -3 {os.path.join(d, "patch.diff")}')
    if rc != 0:
      sh(f'git -C {tree} checkout -- .')
      meta['final'] = [{'check': meta['property'], 'exit': None,
                        'note': 'patch no longer applies to the current '
                        'HEAD (the code it changes was repaired by a later '
                        'fix: commit)'}]
      json.dump(meta, open(mp, 'w'), indent=1)
      print(name, 'STALE (patch does not apply to the current HEAD)',
            flush=True)
      continue
    res = []
    try:
      for p in props:
        t0 = time.time()
        pre = f'VERIF_FLAX_TREE={scratch} ' if scratch else ''
        rc, o = sh(f'{pre}./check {p} --tier quick --no-evidence', cwd=ROOT)
        first = [l for l in o.splitlines() if l.startswith('  clause=')][:1]
        res.append({'check': p, 'exit': rc, 'wall_s': round(time.time() - t0),
                    'first': first[0][:300] if first else ''})
    finally:
      sh(f'git -C {tree} checkout -- .')
      sh(f'git -C {tree} reset -q')
    meta['final'] = res
    json.dump(meta, open(mp, 'w'), indent=1)
    ok = any(r['exit'] == 1 for r in res)
    if not ok:
      missed.append(name)
    print(name, 'CAUGHT' if ok else 'MISSED',
          ' '.join(f"{r['check']}:{r['exit']}" for r in res), flush=True)
  print('missed:', missed)
  return 1 if missed else 0


if __name__ == '__main__':
  sys.exit(main())
