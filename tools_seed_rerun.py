"""Re-runs the registered quick check of every seeded change against /repo
with the change applied (and reverts it): the regression suite of the checks.

usage: tools_seed_rerun.py [name ...]      (default: every seeded/<name>)
Writes seeded/<name>/meta.json["final"] and prints one line per change.
Exit 1 if a change is no longer caught.
"""
import json, os, subprocess, sys, time

ROOT = os.path.dirname(os.path.abspath(__file__))


def sh(cmd, cwd=None, timeout=7200):
  p = subprocess.run(cmd, shell=True, cwd=cwd, timeout=timeout,
                     stdout=subprocess.PIPE, stderr=subprocess.STDOUT)
  return p.returncode, p.stdout.decode(errors='replace')


def main():
  names = sys.argv[1:] or sorted(os.listdir(os.path.join(ROOT, 'seeded')))
  rc, o = sh('git -C /repo status --short')
  assert not o.strip(), f'/repo not clean: {o}'
  missed = []
  for name in names:
    d = os.path.join(ROOT, 'seeded', name)
    mp = os.path.join(d, 'meta.json')
    if not os.path.exists(mp):
      continue
    meta = json.load(open(mp))
    props = meta.get('caught_by') or [meta['property']]
    rc, o = sh(f'git -C /repo apply {os.path.join(d, "patch.diff")}')
    assert rc == 0, (name, o)
    res = []
    try:
      for p in props:
        t0 = time.time()
        rc, o = sh(f'./check {p} --tier quick --no-evidence', cwd=ROOT)
        first = [l for l in o.splitlines() if l.startswith('  clause=')][:1]
        res.append({'check': p, 'exit': rc, 'wall_s': round(time.time() - t0),
                    'first': first[0][:300] if first else ''})
    finally:
      sh('git -C /repo checkout -- .')
    meta['final'] = res
    json.dump(meta, open(mp, 'w'), indent=1)
    ok = any(r['exit'] == 1 for r in res)
    if not ok:
      missed.append(name)
    print(name, 'CAUGHT' if ok else 'MISSED',
          ' '.join(f"{r['check']}:{r['exit']}" for r in res), flush=True)
  print('missed:', missed)
  return 1 if missed else 0


if __name__ == '__main__':
  sys.exit(main())
