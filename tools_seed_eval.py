"""Confirms an independently written change and runs the checks against it.

usage: tools_seed_eval.py <ID> <worktree-with-SEED-dir> [--name NAME] [--tier quick]
                          [--skip-baseline] [--props C01,C05]

1. takes `git diff -- flax` of the worktree (the sub-agent's change),
2. in a fresh scratch worktree of /repo HEAD: demo must pass without the patch
   and fail with it; the pinned baseline must still pass with it,
3. applies the patch to /repo, runs ./check for the property (and optional
   others), reverts /repo,
4. writes seeded/<NAME>/{patch.diff,demo.py,notes.md,meta.json}.
"""
import argparse, json, os, shutil, subprocess, sys, tempfile, time
import xml.etree.ElementTree as ET

ROOT = os.path.dirname(os.path.abspath(__file__))
SHIM = '/tmp/jaxshim'


def sh(cmd, cwd=None, env=None, timeout=3600):
  p = subprocess.run(cmd, shell=True, cwd=cwd, env=env, timeout=timeout,
                     stdout=subprocess.PIPE, stderr=subprocess.STDOUT)
  return p.returncode, p.stdout.decode(errors='replace')


def main():
  ap = argparse.ArgumentParser()
  ap.add_argument('prop')
  ap.add_argument('worktree')
  ap.add_argument('--name')
  ap.add_argument('--tier', default='quick')
  ap.add_argument('--skip-baseline', action='store_true')
  ap.add_argument('--props')
  ap.add_argument('--only-confirm', action='store_true')
  ap.add_argument('--only-check', action='store_true')
  a = ap.parse_args()
  name = a.name or a.prop
  out = os.path.join(ROOT, 'seeded', name)
  os.makedirs(out, exist_ok=True)
  rc, patch = sh('git diff -- flax', cwd=a.worktree)
  assert patch.strip(), 'empty patch'
  open(os.path.join(out, 'patch.diff'), 'w').write(patch)
  import re
  for f in ('demo.py', 'notes.md'):
    src = os.path.join(a.worktree, 'SEED', f)
    if os.path.exists(src):
      txt = open(src).read()
      if f == 'demo.py':
        # demos are run with PYTHONPATH chosen by the caller: drop guards that
        # pin the sub-agent's own worktree path
        txt = re.sub(r"^([ \t]*).*flax\.__file__.*$",
                     r"\1pass  # (path guard removed)", txt, flags=re.M)
        txt = txt.replace(os.path.abspath(a.worktree), '/repo')
      open(os.path.join(out, f), 'w').write(txt)
  meta = {'property': a.prop, 'name': name, 'ran': []}
  # --- confirm in a fresh scratch worktree
  if a.only_check:
    return run_checks(a, out, meta)
  os.makedirs(SHIM, exist_ok=True)
  if not os.path.exists(os.path.join(SHIM, 'jaxcompat.py')):
    shutil.copy(os.path.join(ROOT, 'harness', 'jaxcompat.py'), SHIM)
  scratch = tempfile.mkdtemp(prefix='confirm_', dir='/tmp/wt')
  os.rmdir(scratch)
  rc, o = sh(f'git -C /repo worktree add -q {scratch} HEAD')
  assert rc == 0, o
  try:
    env = dict(os.environ, PYTHONPATH=f'{scratch}:{SHIM}', JAX_PLATFORMS='cpu')
    demo = os.path.join(out, 'demo.py')
    rc0, o0 = sh(f'/venv/bin/python {demo}', cwd=scratch, env=env, timeout=1200)
    rca, oa = sh(f'git apply {os.path.join(out, "patch.diff")}', cwd=scratch)
    assert rca == 0, oa
    rc1, o1 = sh(f'/venv/bin/python {demo}', cwd=scratch, env=env, timeout=1200)
    meta['demo_without_patch_rc'] = rc0
    meta['demo_with_patch_rc'] = rc1
    meta['demo_with_patch_tail'] = o1[-600:]
    print(f'demo: without patch rc={rc0}, with patch rc={rc1}')
    if rc0 != 0:
      print('  demo fails WITHOUT the patch:', o0[-400:])
    if not a.skip_baseline:
      base = json.load(open('/root/.vp/BASELINE.json'))
      fd, xml = tempfile.mkstemp(suffix='.xml')
      os.close(fd)
      cmd = base['cmd'].replace('<file>', xml).replace('cd /repo', f'cd {scratch}')
      benv = dict(os.environ, PYTHONPATH=scratch)
      benv.pop('GOOGLE_FLAX_VERIF', None)
      t0 = time.time()
      sh(cmd, env=benv, timeout=3600)
      passed = set()
      for tc in ET.parse(xml).getroot().iter('testcase'):
        if not any(ch.tag in ('failure', 'error', 'skipped') for ch in tc):
          passed.add(f"{tc.get('classname')}::{tc.get('name')}")
      os.unlink(xml)
      missing = [t for t in base['stable_pass'] if t not in passed]
      meta['baseline_missing_with_patch'] = missing[:20]
      print(f'baseline with patch: {len(missing)} of {len(base["stable_pass"])} '
            f'stable tests no longer pass ({time.time() - t0:.0f}s)')
  finally:
    sh(f'git -C /repo worktree remove --force {scratch}')
  if a.only_confirm:
    return save_meta(out, meta)
  return run_checks(a, out, meta)


def run_checks(a, out, meta):
  rc, o = sh('git -C /repo status --short')
  assert not o.strip(), f'/repo not clean: {o}'
  rc, o = sh(f'git -C /repo apply {os.path.join(out, "patch.diff")}')
  assert rc == 0, o
  try:
    props = (a.props.split(',') if a.props else [a.prop])
    for p in props:
      t0 = time.time()
      rc, o = sh(f'./check {p} --tier {a.tier} --no-evidence', cwd=ROOT,
                 timeout=6 * 3600)
      lines = [l for l in o.splitlines() if l.startswith('VIOLATION')
               or l.startswith('  clause=') or l.startswith('HARNESS-ERROR')]
      meta['ran'].append({'check': p, 'tier': a.tier, 'exit': rc,
                          'wall_s': round(time.time() - t0, 1),
                          'first_lines': [l[:400] for l in lines[:4]]})
      print(f'check {p} --tier {a.tier}: exit {rc} ({time.time() - t0:.0f}s)')
      for l in lines[:4]:
        print('   ', l[:300])
  finally:
    sh('git -C /repo checkout -- .')
  return save_meta(out, meta)


def save_meta(out, meta):
  old = {}
  mp = os.path.join(out, 'meta.json')
  if os.path.exists(mp):
    old = json.load(open(mp))
    meta['ran'] = old.get('ran', []) + meta['ran']
    for k, v in old.items():
      if k not in meta:
        meta[k] = v
  json.dump(meta, open(mp, 'w'), indent=1)



if __name__ == '__main__':
  main()
