#!/bin/bash
# usage: tools_mutant.sh <python-patch-file> <check args...>
# applies a patch script to /repo (python file executed with cwd=/repo), runs ./check, reverts.
set -u
patch="$1"; shift
cd /repo && git diff --quiet || { echo "repo dirty"; exit 9; }
/venv/bin/python "$patch" || { echo "patch failed"; git checkout -- .; exit 8; }
git diff --stat | tail -1
cd /verif && ./check "$@" --no-evidence 2>&1 | grep -v "conda\|^I0000\|^WARNING: All\|KNOWN-FINDING" | cut -c1-400 | head -6
cd /repo && git checkout -- .
