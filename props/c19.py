"""C19 — partition metadata stays aligned with array axes."""
from __future__ import annotations

from typing import Any

import numpy as np
from hypothesis import strategies as st

from harness.core import begin, clause, Violation, sut, require, expect_raises

import jax
import jax.numpy as jnp
from jax.sharding import PartitionSpec as P
import flax.linen as nn
from flax import nnx
from flax.core import meta, unfreeze
from flax.linen import spmd as lspmd

begin('C19')

ASSUMPTIONS = [
    'single CPU device: axis names and PartitionSpecs are checked, not '
    'physical placement',
    'stacked dimensions use sizes (5 for scan, 7 for vmap) that differ from '
    'every base dimension (2-4), so the position of the stacked dimension is '
    'observable from the shape',
    'negative stacking axes are a recorded known finding and are generated '
    'only by the probe clause',
]

PN = meta.PARTITION_NAME
N_SCAN, N_VMAP = 5, 7
NAMES = ['in', 'out', 'heads', None]


class VLayer(nn.Module):
  names: tuple = ()
  shape: tuple = ()

  @nn.compact
  def __call__(self, x):
    w = self.param('w', nn.with_partitioning(nn.initializers.normal(1.0),
                                             self.names), self.shape)
    u = self.param('u', nn.initializers.ones, (2,) * len(self.shape))  # unboxed
    # a boxed variable of a second collection (may be stacked on another axis)
    s = self.variable('stats', 's', nn.with_partitioning(
        lambda: jnp.full(self.shape, 0.5), self.names))
    return x * (1.0 + jnp.sum(w) * 0.1) + jnp.sum(u) + 0.01 * jnp.sum(s.value)


class SLayer(nn.Module):
  names: tuple = ()
  shape: tuple = ()

  @nn.compact
  def __call__(self, c, _):
    w = self.param('w', nn.with_partitioning(nn.initializers.normal(1.0),
                                             self.names), self.shape)
    u = self.param('u', nn.initializers.ones, (2,) * len(self.shape))
    s = self.variable('stats', 's', nn.with_partitioning(
        lambda: jnp.full(self.shape, 0.5), self.names))
    return (c * (1.0 + jnp.sum(w) * 0.1) + jnp.sum(u)
            + 0.01 * jnp.sum(s.value)), None


def insert(t, k, v):
  t = list(t)
  t.insert(k, v)
  return tuple(t)


def c19_case():
  return st.integers(1, 3).flatmap(lambda r: st.fixed_dictionaries({
      'shape': st.lists(st.integers(2, 4), min_size=r, max_size=r),
      'names': st.lists(st.sampled_from(NAMES), min_size=r, max_size=r),
      'structure': st.sampled_from(['scan', 'vmap', 'scan_of_vmap',
                                    'vmap_of_scan']),
      'k_inner': st.integers(0, r), 'k_outer': st.integers(0, r + 1),
      # stacking axes of the second collection ('stats'); None = same as params
      'k2_inner': st.one_of(st.none(), st.integers(0, r)),
      'k2_outer': st.one_of(st.none(), st.integers(0, r + 1)),
      'stats_first': st.booleans(),
      # the stacked axis may be left unsharded: partition name None
      'pn_none': st.sampled_from([(False, False), (False, False),
                                  (True, False), (False, True), (True, True)]),
      'seed': st.integers(0, 2**16)}))


def build_linen(case, k_inner, k_outer):
  shape, names = tuple(case['shape']), tuple(case['names'])
  s = case['structure']
  sr = {'params': True}
  vm_none, sc_none = case.get('pn_none', (False, False))
  VM, SC = (None if vm_none else 'vm'), (None if sc_none else 'sc')
  r = len(shape)
  k2i = case.get('k2_inner')
  k2i = k_inner if k2i is None else min(k2i, r)
  k2o = case.get('k2_outer')
  k2o = k_outer if k2o is None else min(k2o, r + 1)

  def va(kp, ks):
    items = [('params', kp), ('stats', ks)]
    return dict(items[::-1] if case.get('stats_first') else items)
  if s == 'vmap':
    cls = nn.vmap(VLayer, variable_axes=va(k_inner, k2i), split_rngs=sr,
                  in_axes=0, out_axes=0, metadata_params={PN: VM})
    mod = cls(names=names, shape=shape)
    args = (jnp.ones((N_VMAP, 2)),)
    exp_names = insert(names, k_inner, VM)
    exp_shape = insert(shape, k_inner, N_VMAP)
    exp2 = (insert(names, k2i, VM), insert(shape, k2i, N_VMAP))
  elif s == 'scan':
    cls = nn.scan(SLayer, variable_axes=va(k_inner, k2i), split_rngs=sr,
                  length=N_SCAN, metadata_params={PN: SC})
    mod = cls(names=names, shape=shape)
    args = (jnp.ones((2,)), None)
    exp_names = insert(names, k_inner, SC)
    exp_shape = insert(shape, k_inner, N_SCAN)
    exp2 = (insert(names, k2i, SC), insert(shape, k2i, N_SCAN))
  elif s == 'scan_of_vmap':
    inner = nn.vmap(SLayer, variable_axes=va(k_inner, k2i), split_rngs=sr,
                    in_axes=(0, None), out_axes=0, metadata_params={PN: VM})
    cls = nn.scan(inner, variable_axes=va(k_outer, k2o), split_rngs=sr,
                  length=N_SCAN, metadata_params={PN: SC})
    mod = cls(names=names, shape=shape)
    args = (jnp.ones((N_VMAP, 2)), None)
    exp_names = insert(insert(names, k_inner, VM), k_outer, SC)
    exp_shape = insert(insert(shape, k_inner, N_VMAP), k_outer, N_SCAN)
    exp2 = (insert(insert(names, k2i, VM), k2o, SC),
            insert(insert(shape, k2i, N_VMAP), k2o, N_SCAN))
  else:
    inner = nn.scan(SLayer, variable_axes=va(k_inner, k2i), split_rngs=sr,
                    length=N_SCAN, metadata_params={PN: SC})
    cls = nn.vmap(inner, variable_axes=va(k_outer, k2o), split_rngs=sr,
                  in_axes=(0, None), out_axes=0, metadata_params={PN: VM})
    mod = cls(names=names, shape=shape)
    args = (jnp.ones((N_VMAP, 2)), None)
    exp_names = insert(insert(names, k_inner, SC), k_outer, VM)
    exp_shape = insert(insert(shape, k_inner, N_SCAN), k_outer, N_VMAP)
    exp2 = (insert(insert(names, k2i, SC), k2o, VM),
            insert(insert(shape, k2i, N_SCAN), k2o, N_VMAP))
  return mod, args, exp_names, exp_shape, exp2


def check_linen(case, k_inner, k_outer, ctx):
  mod, args, exp_names, exp_shape, exp2 = build_linen(case, k_inner, k_outer)
  with sut('init'):
    V = mod.init(jax.random.key(case['seed']), *args)
  # the second collection carries its own stacking axes
  sbox = V['stats']['s']
  require(isinstance(sbox, nn.Partitioned) and tuple(sbox.names) == exp2[0]
          and tuple(sbox.value.shape) == exp2[1], lambda: "collection 'stats' "
          f'(stacked at its own axes): names {getattr(sbox, "names", None)} / '
          f'shape {np.shape(getattr(sbox, "value", sbox))}, expected '
          f'{exp2[0]} / {exp2[1]}')
  box = V['params']['w']
  require(isinstance(box, nn.Partitioned), 'variable lost its Partitioned box')
  val = box.value
  require(len(box.names) == val.ndim, lambda: f'{len(box.names)} names '
          f'{box.names} for an array of rank {val.ndim} {val.shape}')
  require(tuple(val.shape) == exp_shape, lambda: f'value shape {val.shape}, '
          f'expected {exp_shape}')
  for nm, size in (('sc', N_SCAN), ('vm', N_VMAP)):
    if nm in exp_names and exp_names.count(nm) == 1:
      require(nm in box.names and val.shape[box.names.index(nm)] == size,
              lambda: f'names {box.names} for shape {val.shape}: {nm!r} does '
              f'not sit on the dimension of size {size}')
  require(tuple(box.names) == exp_names, lambda: f'names {box.names}, '
          f'expected {exp_names}')
  # get_partition_spec: boxed -> names, unboxed -> replicated
  with sut('get_partition_spec'):
    spec = nn.get_partition_spec(V)
  require(spec['params']['w'] == P(*exp_names), lambda: f'partition spec '
          f'{spec["params"]["w"]} != {P(*exp_names)}')
  require(spec['params']['u'] == P(), 'unboxed array must get a replicated '
          'spec')
  require(spec['stats']['s'] == P(*exp2[0]), lambda: 'partition spec of '
          f"stats/s {spec['stats']['s']} != {P(*exp2[0])}")
  # apply: boxed variables compute like their raw arrays
  with sut('apply'):
    y = mod.apply(V, *args)
    y_raw = mod.apply(meta.unbox(V), *args)
  la, lb = jax.tree_util.tree_leaves(y), jax.tree_util.tree_leaves(y_raw)
  require(all(np.allclose(np.asarray(a), np.asarray(b), rtol=1e-6)
              for a, b in zip(la, lb)), 'boxed variables compute differently '
          'from their raw arrays')
  # a mutable apply returns boxes with the same names again
  with sut('apply(mutable)'):
    _, upd = mod.apply(V, *args, mutable=['params', 'stats'])
  b3 = upd['stats']['s']
  require(isinstance(b3, nn.Partitioned) and tuple(b3.names) == exp2[0]
          and tuple(b3.value.shape) == exp2[1],
          lambda: f'after apply the stats box has names '
          f'{getattr(b3, "names", None)} / shape '
          f'{np.shape(getattr(b3, "value", b3))}, expected {exp2}')
  b2 = upd['params']['w']
  require(isinstance(b2, nn.Partitioned) and tuple(b2.names) == exp_names
          and tuple(b2.value.shape) == exp_shape,
          lambda: f'after apply the box has names {getattr(b2, "names", None)}'
          f' / shape {np.shape(getattr(b2, "value", b2))}')


@clause('linen_stacking', strategy=c19_case, quick=130, thorough=4000,
        quick_shards=13, thorough_shards=16, shrink=False,
        rule='rank 1-3 parameters boxed with nn.with_partitioning (names incl. '
        'None) under nn.scan, nn.vmap, scan-of-vmap and vmap-of-scan with '
        'metadata_params partition names (or None: unsharded stacking axis) '
        'and every non-negative stacking axis '
        '0..rank, with a boxed variable of a second collection stacked along '
        'its own (possibly different) axes: after init and after apply, len(names) == ndim, the stacked '
        'dimension sits exactly at the inserted name, names equal the expected '
        'insertion order, get_partition_spec returns them (replicated for '
        'unboxed arrays), and outputs equal those on the unboxed variables; '
        'non-trivial = nesting or a stacking axis > 0')
def linen_stacking(case, ctx):
  r = len(case['shape'])
  k_inner = min(case['k_inner'], r)
  nested = case['structure'] in ('scan_of_vmap', 'vmap_of_scan')
  k_outer = min(case['k_outer'], r + 1) if nested else 0
  check_linen(case, k_inner, k_outer, ctx)
  ctx.note(labels=[case['structure'], f'ki{k_inner}', f'ko{k_outer}',
                   'two-axes' if case.get('k2_inner') not in (None, k_inner)
                   else 'one-axis'] + (
      ['unsharded-stack-axis'] if any(case.get('pn_none', (0, 0))) else []),
           nontrivial=nested or k_inner > 0)


# ----------------------------------------------------------------------------
@clause('nnx_transform_metadata',
        strategy=lambda: st.fixed_dictionaries({
            'din': st.integers(2, 4), 'dout': st.integers(2, 4),
            'names': st.lists(st.sampled_from(['in', 'out', None]), min_size=2,
                              max_size=2),
            'axis': st.integers(0, 2), 'kind': st.sampled_from(['vmap',
                                                                'scan']),
            # the stacked axis may be declared unsharded: partition name None
            'pn_none': st.sampled_from([False, False, True]),
            'seed': st.integers(0, 2**16)}),
        quick=100, thorough=3000, quick_shards=10, shrink=False,
        rule='nnx.Linear kernels annotated with nnx.with_partitioning are '
        'created under nnx.vmap / nnx.scan with transform_metadata partition '
        'name (a string, or None for an unsharded stacking axis) and stacking '
        'axis 0-2: sharding has one entry per dimension with '
        'the partition name at the stacking axis; inside a mapped forward pass '
        'the name is removed and the per-slice shape restored; afterwards the '
        'stacked metadata is back; nnx.get_partition_spec returns the names; '
        'non-trivial = axis > 0')
def nnx_transform_metadata(case, ctx):
  din, dout, names = case['din'], case['dout'], tuple(case['names'])
  ax = case['axis']
  n = N_SCAN if case['kind'] == 'scan' else N_VMAP
  PN_ = None if case.get('pn_none') else 'layers'
  tm = {nnx.PARTITION_NAME: PN_}
  st_axes = nnx.StateAxes({nnx.Param: ax, ...: 0})   # BatchStat stacks on 0
  def make(key):
    m = nnx.Linear(din, dout, use_bias=False,
                   kernel_init=nnx.with_partitioning(
                       nnx.initializers.lecun_normal(), names),
                   rngs=nnx.Rngs(key))
    # a rank-0 Variable: its complete annotation is the empty tuple
    m.temperature = nnx.BatchStat(jnp.ones(()), sharding=())
    return m
  keys = jax.random.split(jax.random.key(case['seed']), n)
  with sut('create under transform'):
    if case['kind'] == 'vmap':
      model = nnx.vmap(make, in_axes=0, out_axes=st_axes,
                       transform_metadata=tm)(keys)
    else:
      model = nnx.scan(make, in_axes=0, out_axes=st_axes, length=n,
                       transform_metadata=tm)(keys)
  exp_names = insert(names, ax, PN_)
  exp_shape = insert((din, dout), ax, n)
  k = model.kernel
  require(tuple(k.value.shape) == exp_shape, lambda: f'kernel shape '
          f'{k.value.shape}, expected {exp_shape}')
  require(tuple(k.sharding) == exp_names, lambda: f'sharding {k.sharding}, '
          f'expected {exp_names}')
  t = model.temperature
  require(tuple(t.value.shape) == (n,) and tuple(t.sharding) == (PN_,),
          lambda: f'rank-0 Variable stacked to shape {t.value.shape} carries '
          f'sharding {t.sharding!r}, expected {(PN_,)!r}')
  with sut('nnx.get_partition_spec'):
    spec = nnx.get_partition_spec(nnx.state(model))
  require(spec['temperature'].value == P(PN_), lambda: 'partition spec '
          f'of the stacked rank-0 Variable is {spec["temperature"].value}')
  require(spec['kernel'].value == P(*exp_names), lambda: f'partition spec '
          f'{spec["kernel"].value} != {P(*exp_names)}')
  seen = {}
  def fwd(m, x):
    seen['sharding'] = tuple(m.kernel.sharding)
    seen['shape'] = tuple(m.kernel.value.shape)
    seen['t_sharding'] = tuple(m.temperature.sharding)
    seen['t_shape'] = tuple(m.temperature.value.shape)
    return x @ m.kernel.value
  x = jnp.ones((n, din))
  with sut('forward under transform'):
    if case['kind'] == 'vmap':
      y = nnx.vmap(fwd, in_axes=(st_axes, 0), out_axes=0,
                   transform_metadata=tm)(model, x)
    else:
      y = nnx.scan(lambda m, xx: fwd(m, xx), in_axes=(st_axes, 0), out_axes=0,
                   length=n, transform_metadata=tm)(model, x)
  require(seen['sharding'] == names and seen['shape'] == (din, dout),
          lambda: f'inside the transform the kernel has sharding '
          f'{seen["sharding"]} / shape {seen["shape"]}, expected {names} / '
          f'{(din, dout)}')
  require(tuple(model.kernel.sharding) == exp_names and tuple(
      model.kernel.value.shape) == exp_shape, 'metadata not restored after '
          'the transform')
  require(seen['t_sharding'] == () and seen['t_shape'] == (), lambda: 'inside '
          f'the transform the rank-0 Variable has sharding '
          f'{seen["t_sharding"]} / shape {seen["t_shape"]}')
  require(tuple(model.temperature.sharding) == (PN_,), lambda: 'rank-0 '
          f'Variable lost its annotation after the transform: '
          f'{model.temperature.sharding!r}')
  ref = np.stack([np.asarray(x[i]) @ np.take(np.asarray(k.value), i, axis=ax)
                  for i in range(n)])
  require(np.allclose(np.asarray(y), ref, rtol=1e-4, atol=1e-5), 'annotated kernel '
          'computes differently from its raw slices')
  ctx.note(labels=[case['kind'], f'axis{ax}',
                   'unsharded-stack-axis' if PN_ is None else 'named'],
           nontrivial=ax > 0)


# ----------------------------------------------------------------------------
MESH_AXES = ['X', 'Y', 'Z']
LOGICAL = ['batch', 'length', 'heads', 'features', 'mlp']


def rules_case():
  mesh = st.one_of(st.none(), st.sampled_from(MESH_AXES),
                   st.lists(st.sampled_from(MESH_AXES), min_size=1, max_size=2,
                            unique=True).map(tuple))
  return st.tuples(
      st.lists(st.one_of(st.none(), st.sampled_from(LOGICAL)), max_size=4),
      st.lists(st.tuples(st.sampled_from(LOGICAL + ['unused']), mesh),
               max_size=7))


def ref_logical(names, rules):
  """Independent priority interpreter: rules in order; a rule fires if its
  logical name is present, that dimension is still unassigned and none of its
  mesh axes is used yet (None = explicitly unsharded)."""
  UN = object()
  res = [UN if isinstance(n, str) else n for n in names]
  used = set()
  for lname, mesh in rules:
    if lname not in names:
      continue
    pos = list(names).index(lname)
    if res[pos] is not UN:
      continue
    want = set() if mesh is None else ({mesh} if isinstance(mesh, str)
                                       else set(mesh))
    if want & used:
      continue
    res[pos] = mesh
    used |= want
  return [None if x is UN else x for x in res]


@clause('logical_to_mesh', strategy=rules_case, quick=3000, thorough=150000,
        quick_shards=4,
        rule='logical dimension-name tuples (0-4 dims, None allowed) x '
        'ordered rule lists (0-7 rules, mesh target a name, a tuple of names '
        'or None, unused logical names included): logical_to_mesh_axes equals '
        'an independent rule-priority interpreter; no mesh axis (flattening '
        'tuples) is used for two dimensions; duplicate logical names raise; '
        'non-trivial = some rule is skipped because its mesh axis is taken')
def logical_to_mesh(case, ctx):
  names, rules = case
  names = tuple(names)
  rules = tuple((l, tuple(m) if isinstance(m, list) else m) for l, m in rules)
  strs = [n for n in names if n is not None]
  if len(set(strs)) != len(strs):
    expect_raises(ValueError, lambda: lspmd.logical_to_mesh_axes(names, rules),
                  'duplicate logical dimension names')
    ctx.note(labels=['duplicates'])
    return
  with sut('logical_to_mesh_axes'):
    spec = lspmd.logical_to_mesh_axes(names, rules)
  ref = ref_logical(names, rules)
  require(tuple(spec) == tuple(P(*ref)), lambda: f'logical_to_mesh_axes('
          f'{names}, {rules}) = {spec}, reference {P(*ref)}')
  flat = []
  for a in spec:
    if a is None:
      continue
    flat += [a] if isinstance(a, str) else list(a)
  require(len(flat) == len(set(flat)), lambda: f'mesh axis used twice in '
          f'{spec}')
  taken = False
  used = set()
  for lname, mesh in rules:
    want = set() if mesh is None else ({mesh} if isinstance(mesh, str)
                                       else set(mesh))
    if lname in names and want & used:
      taken = True
    if lname in names:
      used |= want
  ctx.note(nontrivial=taken, labels=[f'dims{len(names)}'])


# ----------------------------------------------------------------------------
@clause('partition_spec_trees',
        strategy=lambda: st.lists(st.tuples(
            st.sampled_from(['boxed', 'raw', 'raw_numpy', 'raw_spec',
                             'boxed_numpy', 'nnx_sharded', 'nnx_plain',
                             'nnx_plain_numpy']),
            st.lists(st.sampled_from(['data', 'model', None]), min_size=1,
                     max_size=3)), min_size=1, max_size=5),
        quick=800, thorough=30000, quick_shards=4, shrink=False,
        rule='trees mixing nn.Partitioned boxes, raw arrays (jax, NumPy, '
        'ShapeDtypeStruct), sharding-'
        'annotated nnx Variables and plain Variables: nn.get_partition_spec / '
        'nnx.get_partition_spec return PartitionSpec(*names) for annotated '
        'leaves and PartitionSpec() for the others; non-trivial = both kinds '
        'present')
def partition_spec_trees(case, ctx):
  ltree, ntree = {}, {}
  exp_l, exp_n = {}, {}
  for i, (kind, names) in enumerate(case):
    names = tuple(names)
    arr = jnp.ones((2,) * len(names))
    # array leaves come as jax arrays, host-side NumPy arrays (device_get,
    # restored checkpoints) or abstract ShapeDtypeStructs (eval_shape)
    if kind in ('boxed', 'boxed_numpy'):
      ltree[f'v{i}'] = nn.Partitioned(np.asarray(arr) if kind.endswith(
          'numpy') else arr, names=names)
      exp_l[f'v{i}'] = P(*names)
    elif kind in ('raw', 'raw_numpy', 'raw_spec'):
      ltree[f'v{i}'] = {'raw': arr, 'raw_numpy': np.asarray(arr),
                        'raw_spec': jax.ShapeDtypeStruct(arr.shape,
                                                         arr.dtype)}[kind]
      exp_l[f'v{i}'] = P()
    elif kind == 'nnx_sharded':
      ntree[f'v{i}'] = nnx.Param(arr, sharding=names)
      exp_n[f'v{i}'] = P(*names)
    else:
      ntree[f'v{i}'] = nnx.Param(np.asarray(arr) if kind.endswith('numpy')
                                 else arr)
      exp_n[f'v{i}'] = P()
  if ltree:
    with sut('nn.get_partition_spec'):
      spec = nn.get_partition_spec({'params': ltree})
    for k, e in exp_l.items():
      require(spec['params'][k] == e, lambda: f'linen {k}: {spec["params"][k]}'
              f' != {e}')
  if ntree:
    with sut('nnx.get_partition_spec'):
      spec = nnx.get_partition_spec(nnx.State(ntree))
    for k, e in exp_n.items():
      got = spec[k].value if hasattr(spec[k], 'value') else spec[k]
      require(got == e, lambda: f'nnx {k}: {got} != {e}')
  kinds = {k for k, _ in case}
  ctx.note(nontrivial=len(kinds) >= 2)


# ----------------------------------------------------------------------------
KNOWN_CASE = {'shape': [3, 4], 'names': ['in', 'out'], 'structure': 'scan',
              'k_inner': -1, 'k_outer': 0, 'seed': 0}


@clause('known_probes', enum=lambda ctx: [KNOWN_CASE], quick_shards=1,
        thorough_shards=1,
        rule='re-executes the recorded reproduction of the known finding '
        '(negative stacking axis misaligns Partitioned.names)')
def known_probes(case, ctx):
  try:
    # stacking on the last array dimension: names must end with the
    # partition name
    mod, args, _, _, _ = build_linen(case, -1, 0)
    V = mod.init(jax.random.key(0), *args)
    box = V['params']['w']
    pos = box.names.index('sc')
    ok = box.value.shape[pos] == N_SCAN
    if ok:
      mod.apply(V, *args)
  except Exception:  # noqa
    ok = False
  if not ok:
    raise Violation("variable_axes={'params': -1}: the partition name is not "
                    'aligned with the stacked dimension',
                    key='C19:negative-stack-axis')


# ----------------------------------------------------------------------------
@clause('boxed_layer_params',
        strategy=lambda: st.fixed_dictionaries({
            'layer': st.sampled_from(['dense', 'general', 'general', 'embed']),
            'shape': st.lists(st.integers(1, 3), min_size=2, max_size=4),
            'features': st.lists(st.integers(1, 3), min_size=1, max_size=2),
            'n_axis': st.integers(1, 2), 'batch_dims': st.booleans(),
            'logical': st.booleans(), 'seed': st.integers(0, 2**16)}),
        quick=200, thorough=6000, quick_shards=4, thorough_shards=16,
        shrink=False,
        rule='Dense / DenseGeneral (feature tuples, 1-2 contracted axes, '
        'batch_dims) / Embed whose kernel, bias and embedding initialisers are '
        'boxed with nn.with_partitioning or nn.with_logical_partitioning: '
        'every box holds an array with one dimension per name, unboxing the '
        'variables gives exactly the shapes and values of the same layer '
        'with raw initialisers, get_partition_spec returns the names and the '
        'outputs are equal; non-trivial = a feature tuple or batch_dims')
def boxed_layer_params(case, ctx):
  shape = tuple(case['shape'])
  r = len(shape)
  rng = np.random.default_rng(case['seed'])
  box = nn.with_logical_partitioning if case['logical'] else \
      nn.with_partitioning
  L8 = ['a', 'b', 'c', 'd', 'e', 'f', 'g', 'h']
  kinit, binit = nn.initializers.lecun_normal(), nn.initializers.ones
  if case['layer'] == 'embed':
    x = jnp.asarray(rng.integers(0, 4, size=shape[:2]))
    mk = lambda boxed: nn.Embed(4, case['features'][0], embedding_init=(
        box(nn.initializers.normal(1.0), ('vocab', 'emb')) if boxed
        else nn.initializers.normal(1.0)))
    nontrivial = False
  elif case['layer'] == 'dense':
    x = jnp.asarray(rng.normal(size=shape), jnp.float32)
    mk = lambda boxed: nn.Dense(
        case['features'][0],
        kernel_init=box(kinit, ('in', 'out')) if boxed else kinit,
        bias_init=box(binit, ('out',)) if boxed else binit)
    nontrivial = False
  else:
    x = jnp.asarray(rng.normal(size=shape), jnp.float32)
    nb = 1 if case['batch_dims'] and r >= 3 else 0
    na = min(case['n_axis'], r - nb - 0)
    na = max(1, min(na, r - nb))
    axes = tuple(range(r - na, r))
    feats = tuple(case['features'])
    kn = tuple(L8[:nb + na + len(feats)])
    bn = tuple(L8[:nb + len(feats)])
    mk = lambda boxed: nn.DenseGeneral(
        feats if len(feats) > 1 else feats[0], axis=axes,
        batch_dims=tuple(range(nb)),
        kernel_init=box(kinit, kn) if boxed else kinit,
        bias_init=box(binit, bn) if boxed else binit)
    nontrivial = len(feats) > 1 or nb > 0
  key = jax.random.key(case['seed'])
  with sut('init (raw initialisers)'):
    Vr = unfreeze(mk(False).init(key, x))
  with sut('init (boxed initialisers)'):
    Vb = unfreeze(mk(True).init(key, x))
  boxes = jax.tree_util.tree_leaves(
      Vb, is_leaf=lambda z: isinstance(z, meta.AxisMetadata))
  require(boxes and all(isinstance(b, nn.Partitioned) for b in boxes),
          'boxed initialisers did not produce boxed variables')
  for b in boxes:
    require(len(b.names) == np.ndim(b.value), lambda: f'box with names '
            f'{b.names} holds an array of shape {np.shape(b.value)}')
  un = meta.unbox(Vb)
  sa = jax.tree_util.tree_map(np.shape, Vr)
  sb = jax.tree_util.tree_map(np.shape, un)
  require(sa == sb, lambda: f'unboxed shapes {sb} differ from the raw '
          f'layer\'s {sa}')
  la, lb = jax.tree_util.tree_leaves(Vr), jax.tree_util.tree_leaves(un)
  require(all(np.array_equal(np.asarray(a), np.asarray(b_))
              for a, b_ in zip(la, lb)), 'boxed initialisation gives other '
          'values than the raw one')
  with sut('get_partition_spec'):
    spec = nn.get_partition_spec(Vb)
  sl = jax.tree_util.tree_leaves(spec, is_leaf=lambda z: isinstance(z, P))
  require([tuple(s_) for s_ in sl] == [tuple(b.names) for b in boxes],
          lambda: f'partition specs {sl} vs names '
          f'{[b.names for b in boxes]}')
  with sut('apply'):
    yb = mk(True).apply(Vb, x)
    yr = mk(False).apply(Vr, x)
    yu = mk(False).apply(un, x)
  require(np.allclose(np.asarray(yb), np.asarray(yr), rtol=1e-6, atol=1e-6)
          and np.allclose(np.asarray(yu), np.asarray(yr), rtol=1e-6,
                          atol=1e-6), 'boxed variables compute differently '
          'from their raw arrays')
  ctx.note(labels=[case['layer'], 'logical' if case['logical'] else
                   'partitioned'], nontrivial=nontrivial)


# ----------------------------------------------------------------------------
# variables whose value is a pytree of boxes (and raw leaves) that user code
# assigns to: the boxes, and with them the axis names, survive the assignment
# and get the stacking axis of a surrounding scan
_AB, _AF = 2, 3


def _assigned_init(form):
  def init():
    k = nn.Partitioned(jnp.zeros((_AB, _AF)), names=('batch', 'feat'))
    v = nn.Partitioned(jnp.zeros((_AF,)), names=('feat',))
    # (rank 1, so that stacking along axis 1 is legal for every leaf)
    s = jnp.zeros((2,), jnp.int32)
    return {'single': k, 'all': {'k': k, 'v': v}, 'mixed': {'k': k, 'step': s},
            'tuple': (k, s), 'raw_first': {'a': s, 'k': k, 'v': v}}[form]
  return init


class _AssignLayer(nn.Module):
  form: str = 'single'
  assigns: int = 1

  @nn.compact
  def __call__(self, c, _):
    cache = self.variable('cache', 'kv', _assigned_init(self.form))
    for _i in range(self.assigns):
      old = cache.value          # unboxed view
      cache.value = jax.tree_util.tree_map(
          lambda a: a + jnp.sum(c).astype(a.dtype) + 1, old)
    return c * 2.0, None


class _AssignStack(nn.Module):
  form: str = 'single'
  assigns: int = 1
  length: int = 2
  axis: int = 0
  scanned: bool = True

  @nn.compact
  def __call__(self, x):
    if not self.scanned:
      return _AssignLayer(self.form, self.assigns, name='l')(x, None)[0]
    sc = nn.scan(_AssignLayer, variable_axes={'cache': self.axis},
                 split_rngs={'params': False}, length=self.length,
                 metadata_params={nn.PARTITION_NAME: 'layers'})
    return sc(self.form, self.assigns, name='l')(x, None)[0]


@clause('assigned_boxed_trees',
        strategy=lambda: st.fixed_dictionaries({
            'form': st.sampled_from(['single', 'all', 'mixed', 'tuple',
                                     'raw_first']),
            'assigns': st.integers(0, 2), 'length': st.integers(1, 3),
            'axis': st.integers(0, 1), 'scanned': st.booleans(),
            'apply_too': st.booleans()}),
        quick=60, thorough=1500, quick_shards=6, thorough_shards=16,
        shrink=False,
        rule='a Linen variable whose value is one Partitioned box, a dict / '
        'tuple of boxes, or a container mixing boxes with raw arrays, '
        'assigned 0-2 times per call with an unboxed tree of the same '
        'structure, standalone or under nn.scan stacking it along axis 0 / 1 '
        'with a partition name (init, optionally followed by a mutable '
        'apply): every declared box is still a box, its names are the '
        'declared names (+ the partition name at the stacking axis), one per '
        'array dimension, and nn.get_partition_spec returns them; raw leaves '
        'stay raw; non-trivial = assigned and the tree mixes boxes and raw '
        'leaves')
def assigned_boxed_trees(case, ctx):
  form, L_, ax = case['form'], case['length'], case['axis']
  mod = _AssignStack(form, case['assigns'], L_, ax, case['scanned'])
  x = jnp.ones((2,), jnp.float32)
  with sut('init'):
    V = unfreeze(mod.init(jax.random.key(0), x))
  if case['apply_too']:
    with sut('apply(mutable=cache)'):
      _, upd = mod.apply(V, x, mutable=['cache'])
    V = unfreeze(upd)
  tree = V['cache']['l']['kv']
  declared = _assigned_init(form)()
  is_box = lambda t: isinstance(t, meta.AxisMetadata)
  got = jax.tree_util.tree_leaves(tree, is_leaf=is_box)
  want = jax.tree_util.tree_leaves(declared, is_leaf=is_box)
  require(len(got) == len(want) and jax.tree_util.tree_structure(
      tree, is_leaf=is_box) == jax.tree_util.tree_structure(
          declared, is_leaf=is_box), lambda: 'variable tree changed structure:'
          f' {jax.tree_util.tree_structure(tree, is_leaf=is_box)}')
  spec = jax.tree_util.tree_leaves(
      nn.get_partition_spec(V)['cache']['l']['kv'],
      is_leaf=lambda t: isinstance(t, P))
  for i, (g, w) in enumerate(zip(got, want)):
    if not is_box(w):
      require(not is_box(g), lambda: f'raw leaf {i} became {type(g).__name__}')
      continue
    require(is_box(g), lambda: f'leaf {i} of the variable (form {form}) was '
            f'declared as Partitioned{tuple(w.names)} but is a bare '
            f'{type(g).__name__} after {case["assigns"]} assignment(s): the '
            'axis names were dropped')
    names = list(w.names)
    shape = list(w.value.shape)
    if case['scanned']:
      names.insert(ax, 'layers')
      shape.insert(ax, L_)
    require(tuple(g.names) == tuple(names) and tuple(g.value.shape) == tuple(
        shape), lambda: f'leaf {i}: names {g.names} on an array of shape '
            f'{g.value.shape}, expected {tuple(names)} on {tuple(shape)}')
    require(spec[i] == P(*names), lambda: f'leaf {i}: get_partition_spec '
            f'gives {spec[i]}, expected {P(*names)}')
  mixed = form in ('mixed', 'tuple', 'raw_first')
  ctx.note(labels=[form, f'assign{case["assigns"]}',
                   'scan' if case['scanned'] else 'plain'],
           nontrivial=mixed and case['assigns'] >= 1)
