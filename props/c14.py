"""C14 — filters form a Boolean algebra; grouping is a first-match partition."""
from __future__ import annotations

import itertools

import numpy as np
from hypothesis import strategies as st

from harness.core import begin, clause, Violation, sut, require, expect_raises

import jax
import jax.numpy as jnp
from flax.core import scope as fscope
from flax.core.scope import DenyList
from flax import nnx
from flax.nnx import filterlib, statelib, variablelib

begin('C14')

ASSUMPTIONS = [
    "collection name 'z' is never mentioned by a generated Linen filter and "
    'stands for every other name',
]

# ----------------------------------------------------------------------------
# Linen filters: JSON encoding  {"t": kind, "v": ...}
# ----------------------------------------------------------------------------
# 'a' and 'b' are substrings of 'ab': membership must compare whole names
NAMES = ['a', 'b', 'ab']
UNIVERSE = ['a', 'b', 'ab', 'z']


def build(f):
  t = f['t']
  if t == 'true':
    return True
  if t == 'false':
    return False
  if t == 'str':
    return f['v']
  if t == 'list':
    return list(f['v'])
  if t == 'tuple':
    return tuple(f['v'])
  if t == 'set':
    return set(f['v'])
  if t == 'frozenset':
    return frozenset(f['v'])
  if t == 'deny':
    return DenyList(build(f['v']))
  raise AssertionError(t)


def sem(f, universe):
  """Reference semantics: the subset of `universe` selected by encoded f."""
  t = f['t']
  if t == 'true':
    return set(universe)
  if t == 'false':
    return set()
  if t == 'str':
    return {f['v']} & set(universe)
  if t in ('list', 'tuple', 'set', 'frozenset'):
    return set(f['v']) & set(universe)
  if t == 'deny':
    return set(universe) - sem(f['v'], universe)
  raise AssertionError(t)


def depth(f):
  return 1 + depth(f['v']) if f['t'] == 'deny' else 0


def atoms(names):
  out = [{'t': 'true'}, {'t': 'false'}]
  out += [{'t': 'str', 'v': n} for n in names]
  subsets = [()]
  subsets += [(n,) for n in names]
  subsets += list(itertools.combinations(names, 2))
  for kind in ('list', 'tuple', 'set', 'frozenset'):
    out += [{'t': kind, 'v': list(s)} for s in subsets]
  return out


def all_filters(max_depth=2):
  level = atoms(NAMES)
  out = list(level)
  for _ in range(max_depth):
    level = [{'t': 'deny', 'v': f} for f in level]
    out += level
  return out


def real_sem(flt, universe):
  return {u for u in universe if fscope.in_filter(flt, u)}


def check_pair(f1, f2, universe, ctx):
  a, b = build(f1), build(f2)
  sa, sb = sem(f1, universe), sem(f2, universe)
  with sut('in_filter'):
    require(real_sem(a, universe) == sa, lambda: f'in_filter({a!r}) selects '
            f'{sorted(real_sem(a, universe))}, expected {sorted(sa)}')
  for name, fn, ref in (
      ('union', fscope.union_filters, sa | sb),
      ('intersect', fscope.intersect_filters, sa & sb),
      ('subtract', fscope.subtract_filters, sa - sb)):
    with sut(f'{name}_filters'):
      r = fn(a, b)
      got = real_sem(r, universe)
    require(got == ref, lambda: f'{name}_filters({a!r}, {b!r}) = {r!r} '
            f'selects {sorted(got)}, expected {sorted(ref)}')
    with sut('is_filter_empty(result)'):
      e = fscope.is_filter_empty(r)
    require(e == (not ref), lambda: f'is_filter_empty({r!r}) = {e} but '
            f'{name} result selects {sorted(ref)} of {universe}')
  with sut('is_filter_empty'):
    e = fscope.is_filter_empty(a)
  require(e == (not sa), lambda: f'is_filter_empty({a!r}) = {e}, but filter '
          f'selects {sorted(sa)} of universe {universe}')
  d = max(depth(f1), depth(f2))
  nontriv = d >= 1 and 0 < len(sa | sb) and len(sa & sb) < len(universe)
  ctx.note(labels=[f'depth{d}', f'kinds:{f1["t"]}/{f2["t"]}'],
           nontrivial=nontriv)


def enum_pairs(ctx):
  fs = all_filters(2)
  ctx.extra['n_filters'] = len(fs)
  for f1 in fs:
    for f2 in fs:
      yield [f1, f2]


@clause('linen_algebra_exhaustive', enum=enum_pairs, exhaustive=True,
        quick_shards=4, thorough_shards=4,
        rule='all ordered pairs of Linen filters over names {a,b,c} (True/'
        'False/str/list/tuple/set/frozenset of <=2 names, DenyList nesting '
        '<=2), membership compared on universe {a,b,c,z}; non-trivial = a '
        'DenyList is involved and the result is neither empty nor everything')
def linen_algebra_exhaustive(case, ctx):
  check_pair(case[0], case[1], UNIVERSE, ctx)


NAMES5 = ['a', 'b', 'ab', 'd', 'params']


def filter_strategy(names=NAMES5, max_depth=4):
  name = st.sampled_from(names)
  coll = st.lists(name, max_size=4, unique=True)
  base = st.one_of(
      st.just({'t': 'true'}), st.just({'t': 'false'}),
      name.map(lambda n: {'t': 'str', 'v': n}),
      st.tuples(st.sampled_from(['list', 'tuple', 'set', 'frozenset']),
                coll).map(lambda kv: {'t': kv[0], 'v': kv[1]}))
  return st.recursive(
      base, lambda inner: inner.map(lambda f: {'t': 'deny', 'v': f}),
      max_leaves=max_depth + 1)


@clause('linen_random_deep',
        strategy=lambda: st.tuples(filter_strategy(), filter_strategy(),
                                   filter_strategy()),
        quick=3000, thorough=200000, thorough_shards=8,
        rule='random filter triples, DenyList nesting up to 5, names from 5 '
        'plus unmentioned z; pairwise ops and the composite '
        'subtract(union(x,y),z); non-trivial = nesting depth >= 2')
def linen_random_deep(case, ctx):
  f1, f2, f3 = case
  uni = NAMES5 + ['z']
  check_pair(f1, f2, uni, ctx)
  a, b, c = build(f1), build(f2), build(f3)
  ref = (sem(f1, uni) | sem(f2, uni)) - sem(f3, uni)
  with sut('subtract(union)'):
    r = fscope.subtract_filters(fscope.union_filters(a, b), c)
    got = real_sem(r, uni)
    e = fscope.is_filter_empty(r)
  require(got == ref, lambda: f'subtract(union({a!r},{b!r}),{c!r}) = {r!r} '
          f'selects {sorted(got)} expected {sorted(ref)}')
  require(e == (not ref), lambda: f'is_filter_empty({r!r}) = {e}, selects '
          f'{sorted(ref)}')
  ref2 = sem(f1, uni) & (sem(f2, uni) - sem(f3, uni))
  with sut('intersect(subtract)'):
    r2 = fscope.intersect_filters(a, fscope.subtract_filters(b, c))
    got2 = real_sem(r2, uni)
    e2 = fscope.is_filter_empty(r2)
  require(got2 == ref2, lambda: f'intersect({a!r},subtract({b!r},{c!r})) = '
          f'{r2!r} selects {sorted(got2)} expected {sorted(ref2)}')
  require(e2 == (not ref2), lambda: f'is_filter_empty({r2!r}) = {e2}, selects '
          f'{sorted(ref2)}')
  ctx.note(nontrivial=max(depth(f1), depth(f2), depth(f3)) >= 2)


# ----------------------------------------------------------------------------
# group_collections
# ----------------------------------------------------------------------------
def _group_case():
  cols = st.lists(st.sampled_from(NAMES5 + ['z', 'cache', 'batch_stats']),
                  max_size=6, unique=True)
  return st.tuples(cols, st.lists(filter_strategy(), max_size=4))


@clause('group_collections', strategy=_group_case, quick=2000,
        thorough=100000,
        rule='random collection-name sets x lists of <=4 random filters; '
        'non-trivial = >=2 filters and some collection matched by >=2 of them')
def group_collections(case, ctx):
  cols, fls = case
  xs = {c: {'w': np.full((2,), i, np.float32), 'sub': {'v': np.int32(i)}}
        for i, c in enumerate(cols)}
  filters = [build(f) for f in fls]
  with sut('group_collections'):
    groups = fscope.group_collections(xs, filters)
  require(len(groups) == len(filters), 'wrong number of groups')
  multi = False
  for c in cols:
    matches = [i for i, f in enumerate(fls) if c in sem(f, cols + ['z'])]
    multi = multi or len(matches) >= 2
    where = [i for i, g in enumerate(groups) if c in g]
    exp = matches[:1]
    require(where == exp, lambda: f'collection {c!r} found in groups {where}, '
            f'first-match expects {exp} for filters {filters!r}')
    if where:
      g = groups[where[0]][c]
      require(g is not xs[c] and g['sub'] is not xs[c]['sub'],
              f'group for {c!r} aliases the input dict')
      require(np.array_equal(g['w'], xs[c]['w'])
              and g['sub']['v'] == xs[c]['sub']['v'],
              f'group for {c!r} changed values')
  for i, g in enumerate(groups):
    require(set(g) <= set(cols), f'group {i} invents collections {set(g)}')
  ctx.note(nontrivial=len(fls) >= 2 and multi,
           labels=[f'nfilters{len(fls)}'])


# ----------------------------------------------------------------------------
# NNX filters
# ----------------------------------------------------------------------------
class MyParam(nnx.Param):
  pass


class Custom(nnx.Variable):
  pass


VTYPES = {'Param': nnx.Param, 'BatchStat': nnx.BatchStat, 'Cache': nnx.Cache,
          'MyParam': MyParam, 'Custom': Custom, 'Variable': nnx.Variable,
          'Intermediate': nnx.Intermediate}
# reference subclass relation, written out by hand (not via issubclass)
SUBCLASS = {
    'Param': {'Param', 'Variable'},
    'MyParam': {'MyParam', 'Param', 'Variable'},
    'BatchStat': {'BatchStat', 'Variable'},
    'Cache': {'Cache', 'Variable'},
    'Intermediate': {'Intermediate', 'Variable'},
    'Custom': {'Custom', 'Variable'},
    'Variable': {'Variable'},
}
LEAF_TYPES = ['Param', 'BatchStat', 'Cache', 'MyParam', 'Custom',
              'Intermediate']
TAGS = ['t1', 't2']
KEYS = ['a', 'b', 'w', 0, 1]


# type filters that name the leaf's own container class instead of the
# Variable class it stands for (only where the leaves are handed to the
# predicate as they are: States of Variables / VariableStates / arrays)
CONTAINER_TYPES = {'VariableState': nnx.VariableState, 'Array': jax.Array}


def nnx_filter_strategy(container_types=False):
  key = st.sampled_from(KEYS)
  path = st.lists(key, min_size=1, max_size=3)
  base = st.one_of(
      st.sampled_from(sorted(VTYPES) + (sorted(CONTAINER_TYPES) * 2
                                        if container_types else [])).map(
          lambda n: {'t': 'type', 'v': n}),
      st.sampled_from(TAGS).map(lambda n: {'t': 'tag', 'v': n}),
      key.map(lambda k: {'t': 'pathcontains', 'v': k}),
      st.lists(path, max_size=3).map(lambda ps: {'t': 'pathin', 'v': ps}),
      st.sampled_from(['true', 'false', 'none', 'ellipsis']).map(
          lambda t: {'t': t}),
  )
  def ext(inner):
    return st.one_of(
        st.tuples(st.sampled_from(['any', 'all', 'list', 'tuple']),
                  st.lists(inner, max_size=3)).map(
                      lambda kv: {'t': kv[0], 'v': kv[1]}),
        inner.map(lambda f: {'t': 'not', 'v': f}))
  return st.recursive(base, ext, max_leaves=6)


def nnx_build(f):
  t = f['t']
  if t == 'type':
    return VTYPES.get(f['v']) or CONTAINER_TYPES[f['v']]
  if t == 'tag':
    return f['v']
  if t == 'pathcontains':
    return filterlib.PathContains(f['v'])
  if t == 'pathin':
    return filterlib.PathIn(*[tuple(p) for p in f['v']])
  if t == 'true':
    return True
  if t == 'false':
    return False
  if t == 'none':
    return None
  if t == 'ellipsis':
    return ...
  if t == 'any':
    return filterlib.Any(*[nnx_build(x) for x in f['v']])
  if t == 'all':
    return filterlib.All(*[nnx_build(x) for x in f['v']])
  if t == 'list':
    return [nnx_build(x) for x in f['v']]
  if t == 'tuple':
    return tuple(nnx_build(x) for x in f['v'])
  if t == 'not':
    return filterlib.Not(nnx_build(f['v']))
  raise AssertionError(t)


def nnx_ref(f, path, leaf):
  """Reference predicate. leaf = {'vt': type name|None, 'tag': str|None}."""
  t = f['t']
  if t == 'type':
    if f['v'] == 'VariableState':   # instance of the filter type itself
      return leaf['vt'] is not None and leaf['form'] == 'state'
    if f['v'] == 'Array':
      return leaf['vt'] is None
    return leaf['vt'] is not None and f['v'] in SUBCLASS[leaf['vt']]
  if t == 'tag':
    return leaf['tag'] == f['v']
  if t == 'pathcontains':
    return f['v'] in path
  if t == 'pathin':
    return list(path) in [list(p) for p in f['v']]
  if t in ('true', 'ellipsis'):
    return True
  if t in ('false', 'none'):
    return False
  if t in ('any', 'list', 'tuple'):
    return any(nnx_ref(x, path, leaf) for x in f['v'])
  if t == 'all':
    return all(nnx_ref(x, path, leaf) for x in f['v'])
  if t == 'not':
    return not nnx_ref(f['v'], path, leaf)
  raise AssertionError(t)


def leaf_strategy():
  return st.fixed_dictionaries({
      'vt': st.one_of(st.none(), st.sampled_from(LEAF_TYPES)),
      'tag': st.one_of(st.none(), st.sampled_from(TAGS)),
      'form': st.sampled_from(['variable', 'state']),
      'val': st.integers(0, 5),
  })


def make_leaf(leaf):
  if leaf['vt'] is None:
    return jnp.asarray(leaf['val'])
  kw = {'tag': leaf['tag']} if leaf['tag'] is not None else {}
  v = VTYPES[leaf['vt']](jnp.asarray(leaf['val']), **kw)
  if leaf['form'] == 'state':
    return v.to_state()
  return v


def leaf_tag(leaf):
  return leaf['tag'] if leaf['vt'] is not None else None


def _is_last_ok(fls):
  """Reference for the `...`/True-must-be-last rule (top-level only)."""
  for i, f in enumerate(fls):
    if f['t'] in ('ellipsis', 'true') and i != len(fls) - 1:
      if not all(g['t'] in ('ellipsis', 'true') for g in fls[i + 1:]):
        return False
  return True


@clause('nnx_predicates',
        strategy=lambda: st.tuples(
            nnx_filter_strategy(container_types=True),
            st.lists(st.tuples(st.lists(st.sampled_from(KEYS), min_size=1,
                                        max_size=3), leaf_strategy()),
                     min_size=1, max_size=4)),
        quick=3000, thorough=150000,
        rule='random NNX filter expressions (types with subclassing, tags, '
        'PathContains, PathIn, Any/All/Not, .../True/False/None, nested '
        'sequences) evaluated on random (path, Variable|VariableState|array) '
        'leaves against an independent evaluator; non-trivial = expression '
        'has a combinator and results differ across leaves')
def nnx_predicates(case, ctx):
  f, leaves = case
  with sut('to_predicate'):
    pred = filterlib.to_predicate(nnx_build(f))
  results = set()
  for path, leaf in leaves:
    leaf = dict(leaf, tag=leaf_tag(leaf))
    obj = make_leaf(leaf)
    with sut('predicate call'):
      got = bool(pred(tuple(path), obj))
    exp = nnx_ref(f, path, leaf)
    results.add(exp)
    require(got == exp, lambda: f'filter {nnx_build(f)!r} on path {path} '
            f'leaf {leaf} gives {got}, reference {exp}')
  ctx.note(nontrivial=f['t'] in ('any', 'all', 'not', 'list', 'tuple')
           and len(results) == 2, labels=[f['t']])


def _state_case():
  paths = st.lists(
      st.lists(st.sampled_from(['a', 'b', 'w', 'k']), min_size=1, max_size=3)
      .map(tuple), min_size=1, max_size=6, unique=True)
  def no_prefix(ps):
    for p in ps:
      for q in ps:
        if p != q and q[:len(p)] == p:
          return False
    return True
  paths = paths.filter(no_prefix)
  return st.tuples(
      paths.flatmap(lambda ps: st.tuples(
          st.just([list(p) for p in ps]),
          st.lists(leaf_strategy(), min_size=len(ps), max_size=len(ps)))),
      st.lists(nnx_filter_strategy(container_types=True), min_size=1, max_size=4),
      st.booleans())


@clause('nnx_split_partition', strategy=_state_case, quick=2000,
        thorough=100000,
        rule='random States (<=6 prefix-free paths, mixed Variable types/'
        'VariableStates/tags) x 1-4 filter expressions, optional trailing '
        '...; split_state/filter_state/State.split/FlatState.split/'
        'split_flat_state vs first-match reference; non-trivial = >=2 '
        'filters and some leaf matched by >=2 of them')
def nnx_split_partition(case, ctx):
  (paths, leaves), fls, add_rest = case
  if add_rest:
    fls = fls + [{'t': 'ellipsis'}]
  leaves = [dict(l, tag=leaf_tag(l)) for l in leaves]
  # State leaves: Variables/VariableStates only when vt is not None
  objs = [make_leaf(l) for l in leaves]
  flat = {tuple(p): o for p, o in zip(paths, objs)}
  with sut('from_flat_state'):
    state = statelib.from_flat_state(flat)
  filters = [nnx_build(f) for f in fls]
  # reference partition
  expect = [[] for _ in fls]
  rest = []
  multi = False
  for p, l in zip(paths, leaves):
    m = [i for i, f in enumerate(fls) if nnx_ref(f, p, l)]
    multi = multi or len(m) >= 2
    (expect[m[0]] if m else rest).append(tuple(p))
  ok_order = _is_last_ok(fls)

  def keyset(s):
    return sorted(statelib.to_flat_state(s).paths) if not isinstance(
        s, statelib.FlatState) else sorted(s.paths)

  def check_groups(groups, what, identity=True):
    require(len(groups) == len(fls), f'{what}: {len(groups)} groups')
    for i, g in enumerate(groups):
      got = keyset(g)
      require(got == sorted(expect[i]), lambda: f'{what}: group {i} has '
              f'{got}, first-match reference {sorted(expect[i])}; filters '
              f'{filters!r}')
      fg = g if isinstance(g, statelib.FlatState) else statelib.to_flat_state(g)
      for p, v in fg:
        require(v is flat[p], f'{what}: leaf at {p} is not the original leaf')

  def tup(x):
    return x if isinstance(x, tuple) else (x,)

  if not ok_order:
    expect_raises(ValueError, lambda: statelib.split_state(state, *filters),
                  'split_state with ... not last')
    expect_raises(ValueError, lambda: statelib.filter_state(state, *filters),
                  'filter_state with ... not last')
    ctx.note(labels=['ellipsis-not-last'])
    return
  # filter_state: never raises for non-exhaustive
  with sut('filter_state'):
    groups = tup(statelib.filter_state(state, *filters))
  check_groups(groups, 'filter_state')
  with sut('State.filter'):
    groups = tup(state.filter(*filters))
  check_groups(groups, 'State.filter')
  with sut('FlatState.filter'):
    groups = tup(statelib.to_flat_state(state).filter(*filters))
  check_groups(groups, 'FlatState.filter')
  if rest:
    expect_raises(ValueError, lambda: statelib.split_state(state, *filters),
                  'split_state non-exhaustive')
    expect_raises(ValueError, lambda: state.split(*filters),
                  'State.split non-exhaustive')
    expect_raises(
        ValueError, lambda: variablelib.split_flat_state(
            list(statelib.to_flat_state(state)), tuple(filters)),
        'split_flat_state non-exhaustive')
    ctx.note(labels=['non-exhaustive'])
  else:
    with sut('split_state'):
      groups = tup(statelib.split_state(state, *filters))
    check_groups(groups, 'split_state')
    with sut('State.split'):
      groups = tup(state.split(*filters))
    check_groups(groups, 'State.split')
    with sut('FlatState.split'):
      fgroups = tup(statelib.to_flat_state(state).split(*filters))
    check_groups(fgroups, 'FlatState.split')
    with sut('split_flat_state'):
      fl = variablelib.split_flat_state(
          list(statelib.to_flat_state(state)), tuple(filters))
    require(len(fl) == len(fls), 'split_flat_state: number of groups')
    for i, g in enumerate(fl):
      require(sorted(p for p, _ in g) == sorted(expect[i]),
              lambda: f'split_flat_state group {i}: {[p for p, _ in g]} vs '
              f'{expect[i]}')
    # merge is the inverse of split
    with sut('merge_state'):
      merged = statelib.merge_state(*groups) if len(groups) > 1 else groups[0]
    mf = dict(statelib.to_flat_state(merged))
    require(set(mf) == set(flat) and all(mf[p] is flat[p] for p in flat),
            'merge_state(*split_state(s)) != s')
    ctx.note(labels=['exhaustive'])
  ctx.note(nontrivial=len(fls) >= 2 and multi)


# nnx.split on real graphs --------------------------------------------------
class Node(nnx.Module):
  pass


def _graph_case():
  leaf = leaf_strategy().filter(lambda l: l['vt'] is not None)
  return st.tuples(
      st.lists(st.tuples(st.sampled_from(['a', 'b', 'w', 'k']),
                         st.sampled_from(['a', 'b', 'w', 'k', None]), leaf),
               min_size=1, max_size=6),
      st.lists(nnx_filter_strategy(), min_size=1, max_size=3),
      st.booleans())


@clause('nnx_graph_split', strategy=_graph_case, quick=800, thorough=40000,
        rule='random two-level Module graphs with Variables of mixed types/'
        'tags; nnx.split / nnx.state with filters vs first-match reference; '
        'merging the states rebuilds all Variables; non-trivial = >=2 filters '
        'and a Variable matched by >=2')
def nnx_graph_split(case, ctx):
  entries, fls, add_rest = case
  if add_rest:
    fls = fls + [{'t': 'ellipsis'}]
  root = Node()
  placed = {}
  for k1, k2, leaf in entries:
    leaf = dict(leaf, form='variable', tag=leaf['tag'])
    if k2 is None:
      if k1 in placed or any(p[0] == k1 for p in placed):
        continue
      setattr(root, k1, make_leaf(leaf))
      placed[(k1,)] = leaf
    else:
      if (k1,) in placed or (k1, k2) in placed:
        continue
      if not hasattr(root, k1):
        setattr(root, k1, Node())
      setattr(getattr(root, k1), k2, make_leaf(leaf))
      placed[(k1, k2)] = leaf
  if not placed:
    return
  filters = [nnx_build(f) for f in fls]
  expect = [[] for _ in fls]
  rest = []
  multi = False
  for p, l in placed.items():
    m = [i for i, f in enumerate(fls) if nnx_ref(f, list(p), l)]
    multi = multi or len(m) >= 2
    (expect[m[0]] if m else rest).append(p)
  if not _is_last_ok(fls):
    expect_raises(ValueError, lambda: nnx.split(root, *filters),
                  'nnx.split with ... not last')
    return
  with sut('nnx.state(filters)'):
    sts = nnx.state(root, *filters)
  sts = sts if isinstance(sts, tuple) else (sts,)
  for i, s in enumerate(sts):
    got = sorted(statelib.to_flat_state(s).paths)
    require(got == sorted(expect[i]), lambda: f'nnx.state group {i}: {got} '
            f'vs reference {sorted(expect[i])} filters {filters!r}')
  if rest:
    expect_raises(ValueError, lambda: nnx.split(root, *filters),
                  'nnx.split non-exhaustive')
  else:
    with sut('nnx.split'):
      gd, *sts = nnx.split(root, *filters)
    for i, s in enumerate(sts):
      got = sorted(statelib.to_flat_state(s).paths)
      require(got == sorted(expect[i]), lambda: f'nnx.split group {i}: {got} '
              f'vs reference {sorted(expect[i])} filters {filters!r}')
    with sut('nnx.merge'):
      m = nnx.merge(gd, *sts)
      full = dict(statelib.to_flat_state(nnx.state(m)))
    require(set(full) == set(placed), 'merge lost or invented Variables')
    for p, l in placed.items():
      require(int(full[p].value) == l['val'], f'value changed at {p}')
  ctx.note(nontrivial=len(fls) >= 2 and multi)
