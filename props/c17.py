"""C17 — optimiser wrappers apply exactly the optax update; metrics ignore
batching."""
from __future__ import annotations

import numpy as np
from hypothesis import strategies as st

from harness.core import begin, clause, Violation, sut, require, expect_raises

import jax
import jax.numpy as jnp
import optax
from flax import nnx
from flax.core import FrozenDict, freeze, unfreeze
from flax.nnx import filterlib, statelib
from flax.training import train_state

begin('C17')

ASSUMPTIONS = [
    'the reference is a hand-written loop u, s = tx.update(g, s, p); p = '
    'optax.apply_updates(p, u) with a second, independently constructed '
    'instance of the same optax transformation; optax itself is trusted',
    'same float32 operations on both sides: parameters and optimiser state '
    'are compared with rtol=1e-6; metrics against float64 NumPy statistics '
    'with rtol=2e-4 on bounded values',
]

T6 = dict(rtol=1e-6, atol=1e-7)


def close(a, b, tol=T6):
  la, lb = jax.tree_util.tree_leaves(a), jax.tree_util.tree_leaves(b)
  if len(la) != len(lb):
    return False
  # low-precision optimiser arithmetic may overflow: the same inf / nan
  # pattern on both sides counts as agreement
  return all(np.shape(x) == np.shape(y) and np.allclose(
      np.asarray(x, np.float64), np.asarray(y, np.float64), equal_nan=True,
      **tol) for x, y in zip(la, lb))


def dtypes(tree):
  return [str(jnp.asarray(x).dtype) for x in jax.tree_util.tree_leaves(tree)]


PDTYPES = {'f32': jnp.float32, 'bf16': jnp.bfloat16, 'f16': jnp.float16}
# same operations on both sides; low-precision parameters are compared at
# their own resolution
TOL = {'f32': T6, 'bf16': dict(rtol=2e-2, atol=1e-2),
       'f16': dict(rtol=4e-3, atol=2e-3)}
DT = st.sampled_from(['f32', 'f32', 'bf16', 'f16'])


def bits(tree):
  return [(np.asarray(x).dtype.str, np.asarray(x).shape,
           np.asarray(x).tobytes()) for x in jax.tree_util.tree_leaves(tree)]


TX = ['sgd', 'momentum', 'nesterov', 'adam', 'adamw', 'rmsprop', 'clip_adam',
      'sched_sgd', 'piecewise_adam', 'multi_steps', 'chain_scale']


def make_tx(name, lr):
  if name == 'sgd':
    return optax.sgd(lr)
  if name == 'momentum':
    return optax.sgd(lr, momentum=0.9)
  if name == 'nesterov':
    return optax.sgd(lr, momentum=0.8, nesterov=True)
  if name == 'adam':
    return optax.adam(lr)
  if name == 'adamw':
    return optax.adamw(lr, weight_decay=0.1)
  if name == 'rmsprop':
    return optax.rmsprop(lr, momentum=0.5)
  if name == 'clip_adam':
    return optax.chain(optax.clip_by_global_norm(0.5), optax.adam(lr))
  if name == 'sched_sgd':
    return optax.sgd(optax.linear_schedule(lr, lr * 0.1, 3))
  if name == 'piecewise_adam':
    return optax.adam(optax.piecewise_constant_schedule(lr, {1: 0.5, 3: 0.1}))
  if name == 'multi_steps':
    return optax.MultiSteps(optax.adam(lr), every_k_schedule=2)
  return optax.chain(optax.scale_by_adam(), optax.add_decayed_weights(0.01),
                     optax.scale(-lr))


def tree_strategy():
  leaf = st.lists(st.integers(1, 3), max_size=2).map(lambda s: {'shape': s})
  def ext(inner):
    return st.lists(st.tuples(st.sampled_from(['a', 'b', 'c', 'layer']),
                              inner), min_size=1, max_size=3,
                    unique_by=lambda kv: kv[0]).map(
                        lambda kv: {'d': [list(x) for x in kv]})
  return ext(st.recursive(leaf, ext, max_leaves=5))


def build_tree(n, rng, frozen=False):
  if 'shape' in n:
    return jnp.asarray(rng.uniform(-1, 1, size=tuple(n['shape'])), jnp.float32)
  d = {k: build_tree(v, rng) for k, v in n['d']}
  return d


def ts_case():
  return st.fixed_dictionaries({
      'tree': tree_strategy(), 'tx': st.sampled_from(TX),
      'lr': st.sampled_from([0.1, 0.01, 1.0]), 'steps': st.integers(1, 5),
      'frozen': st.booleans(), 'owg': st.booleans(),
      # parameter dtype and whether gradients come in float32 regardless
      'pdtype': DT, 'g32': st.booleans(),
      'seed': st.integers(0, 2**16)})


@clause('linen_trainstate', strategy=ts_case, quick=250, thorough=10000,
        quick_shards=10, thorough_shards=16, shrink=False,
        rule='random nested parameter trees (dict / FrozenDict; float32 / '
        'bfloat16 / float16, gradients in the same dtype or float32) x 11 optax '
        'transformations (stateless, momentum, adam(w), rmsprop, clipping '
        'chains, schedules, MultiSteps) x 1-5 gradient steps: after every '
        'TrainState.apply_gradients, params, every opt_state leaf and step '
        'equal the hand-written optax loop in value and dtype; the previous TrainState instance '
        'is bit-unchanged; apply_fn/tx untouched; OVERWRITE_WITH_GRADIENT '
        'collection is replaced by its gradient; non-trivial = stateful '
        'transformation and >=2 steps')
def linen_trainstate(case, ctx):
  rng = np.random.default_rng(case['seed'])
  params = build_tree(case['tree'], rng)
  pdt = case.get('pdtype', 'f32')
  tol = TOL[pdt]
  gdt = jnp.float32 if case.get('g32', True) else PDTYPES[pdt]
  params = jax.tree_util.tree_map(lambda a: a.astype(PDTYPES[pdt]), params)
  if case['frozen']:
    params = freeze(params)
  owg = None
  if case['owg']:
    owg = {'scale': jnp.asarray(rng.uniform(-1, 1, (2,)), jnp.float32)}
    full = {'params': params, train_state.OVERWRITE_WITH_GRADIENT: owg}
  else:
    full = params
  tx, tx_ref = make_tx(case['tx'], case['lr']), make_tx(case['tx'],
                                                         case['lr'])
  fn = lambda *a: None
  with sut('TrainState.create'):
    ts = train_state.TrainState.create(apply_fn=fn, params=full, tx=tx)
  require(int(ts.step) == 0, 'step must start at 0')
  p_ref = params
  s_ref = tx_ref.init(p_ref)
  require(close(ts.opt_state, s_ref), 'initial opt_state != tx.init(params)')
  for i in range(case['steps']):
    g = jax.tree_util.tree_map(
        lambda p: jnp.asarray(rng.uniform(-1, 1, size=p.shape), gdt),
        params)
    if owg is not None:
      g_owg = {'scale': jnp.asarray(rng.uniform(-1, 1, (2,)), jnp.float32)}
      grads = {'params': g, train_state.OVERWRITE_WITH_GRADIENT: g_owg}
    else:
      grads = g
    old_bits = bits((ts.params, ts.opt_state, ts.step))
    old = ts
    with sut('apply_gradients'):
      ts = ts.apply_gradients(grads=grads)
    u, s_ref = tx_ref.update(g, s_ref, p_ref)
    p_ref = optax.apply_updates(p_ref, u)
    require(ts is not old, 'apply_gradients must return a new instance')
    require(bits((old.params, old.opt_state, old.step)) == old_bits,
            'apply_gradients modified the previous TrainState')
    require(int(ts.step) == i + 1, lambda: f'step = {int(ts.step)} after '
            f'{i + 1} updates')
    got_p = ts.params['params'] if owg is not None else ts.params
    require(jax.tree_util.tree_structure(got_p) ==
            jax.tree_util.tree_structure(p_ref) and close(got_p, p_ref, tol),
            lambda: f'params after step {i + 1} differ from the optax loop '
            f'({case["tx"]})')
    require(dtypes(got_p) == dtypes(p_ref), lambda: f'params after step '
            f'{i + 1} have dtypes {dtypes(got_p)}, tx.update + optax.'
            f'apply_updates by hand gives {dtypes(p_ref)}')
    require(jax.tree_util.tree_structure(ts.opt_state) ==
            jax.tree_util.tree_structure(s_ref) and close(ts.opt_state, s_ref,
                                                          tol),
            lambda: f'opt_state after step {i + 1} differs ({case["tx"]})')
    require(dtypes(ts.opt_state) == dtypes(s_ref), lambda: f'opt_state dtypes '
            f'{dtypes(ts.opt_state)} != {dtypes(s_ref)}')
    if owg is not None:
      require(bits(ts.params[train_state.OVERWRITE_WITH_GRADIENT]) == bits(
          g_owg), 'OVERWRITE_WITH_GRADIENT collection is not the gradient')
    require(ts.apply_fn is fn and ts.tx is tx, 'apply_fn / tx changed')
  ctx.note(labels=[case['tx'], 'owg' if case['owg'] else 'plain',
                   'frozen' if case['frozen'] else 'dict', pdt,
                   'g32' if case.get('g32', True) else 'gsame'],
           nontrivial=case['tx'] not in ('sgd', 'sched_sgd')
           and case['steps'] >= 2)


# ----------------------------------------------------------------------------
class Extra(nnx.Variable):
  pass


class Model(nnx.Module):
  def __init__(self, rng, depth):
    self.w = nnx.Param(jnp.asarray(rng.uniform(-1, 1, (2, 3)), jnp.float32))
    self.b = nnx.Param(jnp.asarray(rng.uniform(-1, 1, (3,)), jnp.float32))
    self.stat = nnx.BatchStat(jnp.asarray(rng.uniform(-1, 1, (3,)),
                                          jnp.float32))
    self.extra = Extra(jnp.asarray(rng.uniform(-1, 1, (2,)), jnp.float32))
    if depth > 0:
      self.sub = Model(rng, depth - 1)


WRT = {'Param': nnx.Param, 'Extra': Extra,
       'ParamOrExtra': filterlib.Any(nnx.Param, Extra),
       'w_only': filterlib.All(nnx.Param, filterlib.PathContains('w')),
       'BatchStat': nnx.BatchStat}


def nnx_case():
  return st.fixed_dictionaries({
      'depth': st.integers(0, 2), 'tx': st.sampled_from(TX),
      'lr': st.sampled_from([0.1, 0.01]), 'steps': st.integers(1, 4),
      'wrt': st.sampled_from(sorted(WRT)), 'api': st.sampled_from(
          ['optimizer', 'trainstate']),
      'pdtype': DT, 'g32': st.booleans(),
      'seed': st.integers(0, 2**16)})


@clause('nnx_optimizer', strategy=nnx_case, quick=250, thorough=10000,
        quick_shards=10, thorough_shards=16, shrink=False,
        rule='nested NNX models (float32 / bfloat16 / float16 Variables, '
        'gradients in the same dtype or float32) x 11 optax transformations '
        'x wrt filters '
        '(Param, a custom Variable type, Any, All+PathContains, BatchStat) x '
        '1-4 steps through nnx.Optimizer.update and nnx.TrainState.'
        'apply_gradients: selected Variables and every opt_state leaf equal '
        'the hand-written optax loop, step increments by one, Variables '
        'outside wrt are bit-unchanged, Variable identity preserved '
        '(Optimizer) / old instance intact (TrainState); non-trivial = wrt is '
        'not the default or depth>=1')
def nnx_optimizer(case, ctx):
  rng = np.random.default_rng(case['seed'])
  model = Model(rng, case['depth'])
  pdt = case.get('pdtype', 'f32')
  tol = TOL[pdt]
  gdt = jnp.float32 if case.get('g32', True) else PDTYPES[pdt]
  if pdt != 'f32':
    for _, var in nnx.graph.iter_graph(model):
      if isinstance(var, nnx.Variable):
        var.value = var.value.astype(PDTYPES[pdt])
  wrt = WRT[case['wrt']]
  tx, tx_ref = make_tx(case['tx'], case['lr']), make_tx(case['tx'],
                                                         case['lr'])
  all_before = {p: np.asarray(v.value).copy() for p, v in
                statelib.to_flat_state(nnx.state(model))}
  sel_paths = {p for p, v in statelib.to_flat_state(nnx.state(model))
               if filterlib.to_predicate(wrt)(p, v)}
  var_ids = {p: id(v) for p, v in statelib.to_flat_state(
      nnx.variables(model))} if hasattr(nnx, 'variables') else {}
  p_ref = nnx.to_pure_dict(nnx.state(model, wrt))
  s_ref = tx_ref.init(p_ref)
  if case['api'] == 'optimizer':
    with sut('Optimizer()'):
      opt = nnx.Optimizer(model, tx, wrt=wrt)
    require(int(opt.step.value) == 0, 'Optimizer.step must start at 0')
  else:
    gd, params, rest = nnx.split(model, wrt, ...)
    with sut('nnx.TrainState.create'):
      ts = nnx.TrainState.create(gd, params=params, tx=tx)
  for i in range(case['steps']):
    g_pure = jax.tree_util.tree_map(
        lambda p: jnp.asarray(rng.uniform(-1, 1, size=np.shape(p)),
                              gdt), p_ref)
    u, s_ref = tx_ref.update(g_pure, s_ref, p_ref)
    p_ref = optax.apply_updates(p_ref, u)
    if case['api'] == 'optimizer':
      grads = nnx.state(model, wrt)
      nnx.replace_by_pure_dict(grads, g_pure)
      with sut('Optimizer.update'):
        opt.update(grads)
      require(int(opt.step.value) == i + 1, lambda: f'step = '
              f'{int(opt.step.value)} after {i + 1} updates')
      got = nnx.to_pure_dict(nnx.state(model, wrt))
      got_s = jax.tree_util.tree_map(
          lambda x: x, nnx.to_pure_dict(nnx.state(opt.opt_state))
          if False else jax.tree_util.tree_leaves(
              jax.tree_util.tree_map(lambda v: v.value if hasattr(
                  v, 'value') else v, opt.opt_state,
                  is_leaf=lambda v: isinstance(v, nnx.Variable))))
      require(len(got_s) == len(jax.tree_util.tree_leaves(s_ref)) and all(
          np.allclose(np.asarray(a, np.float64), np.asarray(b, np.float64),
                      equal_nan=True, **tol)
          for a, b in zip(got_s, jax.tree_util.tree_leaves(s_ref))),
          lambda: f'opt_state after step {i + 1} differs from the optax loop '
          f'({case["tx"]})')
      require([str(jnp.asarray(a).dtype) for a in got_s] == dtypes(s_ref),
              lambda: f'opt_state after step {i + 1} has dtypes '
              f'{[str(jnp.asarray(a).dtype) for a in got_s]}, tx.update by '
              f'hand gives {dtypes(s_ref)} (params {pdt}, grads '
              f'{"float32" if case.get("g32", True) else pdt}, {case["tx"]})')
    else:
      grads = jax.tree_util.tree_map(lambda x: x, ts.params)
      nnx.replace_by_pure_dict(grads, g_pure)
      old = ts
      old_bits = bits((ts.params, ts.opt_state, ts.step))
      with sut('TrainState.apply_gradients'):
        ts = ts.apply_gradients(grads)
      require(ts is not old and bits((old.params, old.opt_state, old.step))
              == old_bits, 'nnx.TrainState.apply_gradients modified the '
              'previous instance')
      require(int(ts.step) == i + 1, 'nnx.TrainState step')
      got = nnx.to_pure_dict(ts.params)
      require(close(ts.opt_state, s_ref, tol), lambda: f'opt_state after '
              f'step {i + 1} differs ({case["tx"]})')
      require(dtypes(ts.opt_state) == dtypes(s_ref), lambda: 'opt_state '
              f'dtypes {dtypes(ts.opt_state)} != {dtypes(s_ref)}')
    require(jax.tree_util.tree_structure(got) ==
            jax.tree_util.tree_structure(p_ref) and close(got, p_ref, tol),
            lambda: f'selected Variables after step {i + 1} differ from the '
            f'optax loop ({case["tx"]}, wrt={case["wrt"]})')
    require(dtypes(got) == dtypes(p_ref), lambda: f'selected Variables after '
            f'step {i + 1} have dtypes {dtypes(got)}, tx.update + optax.'
            f'apply_updates by hand gives {dtypes(p_ref)} (params {pdt}, '
            f'grads {"float32" if case.get("g32", True) else pdt})')
  if case['api'] == 'optimizer':
    after = {p: np.asarray(v.value) for p, v in statelib.to_flat_state(
        nnx.state(model))}
    for p, val in all_before.items():
      if p not in sel_paths:
        require(np.array_equal(after[p], val), lambda: f'Variable {p} is '
                f'outside wrt={case["wrt"]} but changed')
  ctx.note(labels=[case['api'], case['wrt'], case['tx'], pdt,
                   'g32' if case.get('g32', True) else 'gsame'],
           nontrivial=case['wrt'] != 'Param' or case['depth'] >= 1)


# ----------------------------------------------------------------------------
def metric_case():
  return st.fixed_dictionaries({
      'values': st.lists(st.integers(-1000, 1000), min_size=1, max_size=24),
      'cuts_a': st.lists(st.integers(0, 24), max_size=5),
      'cuts_b': st.lists(st.integers(0, 24), max_size=5),
      'scalars': st.booleans(), 'classes': st.integers(2, 4),
      'block': st.sampled_from([1, 1, 2, 3]),
      'threshold': st.one_of(st.none(), st.sampled_from([0.0, 0.5])),
      'seed': st.integers(0, 2**16)})


def partition(n, cuts):
  cs = sorted({c % (n + 1) for c in cuts} | {0, n})
  return [(a, b) for a, b in zip(cs[:-1], cs[1:]) if b > a]


@clause('metrics', strategy=metric_case, quick=400, thorough=20000,
        quick_shards=8, thorough_shards=16, shrink=False,
        rule='(every sixth case also a 120000-value stream in updates of '
        '60000 / 50000 / 1000 for Welford and Average) '
        'value streams (1-24 bounded floats, also fed as Python scalars and '
        'as rank-2 (rows, k) blocks)'
        ' and label/logit streams x two random partitions into batches: '
        'Average / Welford (mean, population std, standard error) / Accuracy '
        '(multi-class and thresholded binary) / MultiMetric report the '
        'statistic of the concatenated stream for both partitions; reset then '
        'reuse starts from scratch, also after inf / nan values; non-trivial = the two partitions differ '
        'and have >=2 batches')
def metrics(case, ctx):
  vals = np.asarray(case['values'], np.float64) / 100.0
  n = len(vals)
  rng = np.random.default_rng(case['seed'])
  pa, pb = partition(n, case['cuts_a']), partition(n, case['cuts_b'])
  C = case['classes']
  logits = rng.normal(size=(n, C)).astype(np.float32)
  labels = rng.integers(0, C, size=(n,)).astype(np.int32)
  bl = rng.normal(size=(n,)).astype(np.float32)
  blab = rng.integers(0, 2, size=(n,)).astype(np.int32)
  thr = case['threshold']
  tol = dict(rtol=2e-4, atol=2e-4)

  blk = case['block']

  def shaped(arr, extra=()):
    # the same values as a (rows, blk) block when the batch divides evenly
    # (e.g. per-token losses of shape (batch, seq_len))
    n_ = arr.shape[0]
    if blk > 1 and n_ % blk == 0 and n_ > 0:
      return arr.reshape((n_ // blk, blk) + tuple(arr.shape[1:]))
    return arr

  def feed(metric, part, kind):
    for a, b in part:
      if kind == 'values':
        if case['scalars']:
          for x in vals[a:b]:
            metric.update(values=float(x))
        else:
          metric.update(values=jnp.asarray(shaped(vals[a:b]), jnp.float32))
      elif kind == 'acc':
        metric.update(logits=jnp.asarray(shaped(logits[a:b])),
                      labels=jnp.asarray(shaped(labels[a:b])))
      elif kind == 'bin':
        metric.update(logits=jnp.asarray(bl[a:b]), labels=jnp.asarray(
            blab[a:b]))
      else:
        metric.update(values=jnp.asarray(vals[a:b], jnp.float32),
                      logits=jnp.asarray(logits[a:b]),
                      labels=jnp.asarray(labels[a:b]))
  exp_mean, exp_std = vals.mean(), vals.std()
  exp_acc = float((logits.argmax(-1) == labels).mean())
  for part in (pa, pb):
    with sut('Average'):
      m = nnx.metrics.Average()
      feed(m, part, 'values')
      got = float(m.compute())
    require(np.isclose(got, exp_mean, **tol), lambda: f'Average = {got}, '
            f'mean of the stream = {exp_mean} (partition {part})')
    with sut('Welford'):
      w = nnx.metrics.Welford()
      feed(w, part, 'values')
      s = w.compute()
    require(np.isclose(float(s.mean), exp_mean, **tol) and np.isclose(
        float(s.standard_deviation), exp_std, **tol) and np.isclose(
            float(s.standard_error_of_mean), exp_std / np.sqrt(n), **tol),
        lambda: f'Welford = ({float(s.mean)}, {float(s.standard_deviation)}, '
        f'{float(s.standard_error_of_mean)}), stream = ({exp_mean}, {exp_std},'
        f' {exp_std / np.sqrt(n)}) (partition {part})')
    with sut('Accuracy'):
      a = nnx.metrics.Accuracy()
      feed(a, part, 'acc')
      ga = float(a.compute())
    require(np.isclose(ga, exp_acc, **tol), lambda: f'Accuracy {ga} vs '
            f'{exp_acc}')
    if thr is not None:
      with sut('Accuracy(threshold)'):
        ab = nnx.metrics.Accuracy(threshold=thr)
        feed(ab, part, 'bin')
        gb = float(ab.compute())
      eb = float(((bl >= thr) == (blab > 0)).mean())
      require(np.isclose(gb, eb, **tol), lambda: f'binary Accuracy {gb} vs '
              f'{eb}')
    with sut('MultiMetric'):
      mm = nnx.MultiMetric(avg=nnx.metrics.Average(),
                           acc=nnx.metrics.Accuracy())
      feed(mm, part, 'multi')
      r = mm.compute()
    require(np.isclose(float(r['avg']), exp_mean, **tol) and np.isclose(
        float(r['acc']), exp_acc, **tol), 'MultiMetric routes values wrongly')
    # reset then reuse
    with sut('reset'):
      m.reset()
      w.reset()
      m.update(values=jnp.asarray([2.0, 4.0]))
      w.update(values=jnp.asarray([2.0, 4.0]))
    require(np.isclose(float(m.compute()), 3.0) and np.isclose(
        float(w.compute().mean), 3.0) and np.isclose(
            float(w.compute().standard_deviation), 1.0),
            'reset did not clear the metric')
  # reset after a diverged stream: non-finite values seen before the reset
  # (an exploded loss) are not part of "the values seen since the last reset"
  bad = [[np.inf], [-np.inf], [np.nan], [np.inf, -np.inf], [1.0, np.nan]][
      case['seed'] % 5]
  with sut('reset after non-finite values'):
    m3, w3 = nnx.metrics.Average(), nnx.metrics.Welford()
    mm3 = nnx.MultiMetric(avg=nnx.metrics.Average(),
                          acc=nnx.metrics.Accuracy())
    for mt in (m3, w3):
      mt.update(values=jnp.asarray(bad, jnp.float32))
      mt.reset()
      mt.update(values=jnp.asarray([2.0, 4.0]))
    mm3.update(values=jnp.asarray(bad, jnp.float32), logits=jnp.asarray(
        logits[:1]), labels=jnp.asarray(labels[:1]))
    mm3.reset()
    mm3.update(values=jnp.asarray([2.0, 4.0]), logits=jnp.asarray(logits),
               labels=jnp.asarray(labels))
    r3 = mm3.compute()
    got3 = (float(m3.compute()), float(w3.compute().mean),
            float(w3.compute().standard_deviation), float(r3['avg']),
            float(r3['acc']))
  require(np.allclose(got3, (3.0, 3.0, 1.0, 3.0, exp_acc), **tol), lambda:
          f'after update({bad}), reset(), update([2, 4]): Average, Welford '
          f'mean/std, MultiMetric avg/acc = {got3}, expected (3, 3, 1, 3, '
          f'{exp_acc})')

  big = case['seed'] % 6 == 0
  if big:
    # long streams (per-token losses): batching independence must also hold
    # when batch size x values seen so far exceeds 2**31
    N = 120000
    # (with a drift, so that batch means differ from the running mean)
    stream = (rng.normal(size=(N,)) * 1.7 + np.linspace(0.0, 3.0, N)
              ).astype(np.float32)
    cut = [60000, 50000, 1000][case['seed'] // 6 % 3]
    ref_mean, ref_std = float(stream.astype(np.float64).mean()), float(
        stream.astype(np.float64).std())
    for fresh in (True, False):
      with sut('Welford/Average (long stream)'):
        w2, a2 = nnx.metrics.Welford(), nnx.metrics.Average()
        if not fresh:
          w2.update(values=jnp.asarray([1.0, 5.0]))
          w2.reset()
        for lo in range(0, N, cut):
          w2.update(values=jnp.asarray(stream[lo:lo + cut]))
          a2.update(values=jnp.asarray(stream[lo:lo + cut]))
        st2 = w2.compute()
      require(np.isclose(float(st2.mean), ref_mean, rtol=2e-3, atol=2e-3)
              and np.isclose(float(st2.standard_deviation), ref_std,
                             rtol=5e-3), lambda: f'Welford over {N} values in '
              f'updates of {cut}: mean {float(st2.mean)}, std '
              f'{float(st2.standard_deviation)}; the stream has mean '
              f'{ref_mean}, std {ref_std}')
      require(np.isclose(float(a2.compute()), ref_mean, rtol=2e-3, atol=2e-3),
              f'Average over {N} values in updates of {cut} differs')
  ctx.note(labels=['scalars' if case['scalars'] else 'arrays', f'block{blk}']
           + (['long-stream'] if big else []),
           nontrivial=pa != pb and len(pa) >= 2 and len(pb) >= 2)
