"""C20 — host-side data helpers and prefetch iterators."""
from __future__ import annotations

import itertools
import warnings

import numpy as np
from hypothesis import strategies as st

from harness.core import (begin, clause, Violation, sut, require,
                          expect_raises, HarnessError)
from harness import sched as hs

import jax
import jax.numpy as jnp
from flax import jax_utils
from flax.training import common_utils
from flax.training import prefetch_iterator as pi_mod

begin('C20')

ASSUMPTIONS = [
    'PrefetchIterator schedules are serialised at synchronisation points '
    '(Thread.start, lock acquire/release, Condition.wait/notify, next(source))'
    ' by replacing the `threading` name inside '
    'flax.training.prefetch_iterator; races between two plain attribute '
    'accesses are visible only when a synchronisation point separates them',
    'device count is simulated by patching jax.local_device_count; '
    'jax.device_put_replicated/sharded come from the jaxcompat shim',
]


class SourceError(Exception):
  pass


# ----------------------------------------------------------------------------
# PrefetchIterator under a harness-owned scheduler
# ----------------------------------------------------------------------------
class Source:
  def __init__(self, n, fail_at, point):
    self.n, self.fail_at, self.i, self.point = n, fail_at, 0, point
    self.calls = 0

  def __iter__(self):
    return self

  def __next__(self):
    self.point('source')
    self.calls += 1
    i = self.i
    if self.fail_at is not None and i == self.fail_at:
      raise SourceError(f'boom at {i}')
    if i >= self.n:
      raise StopIteration
    self.i += 1
    return ('item', i)


def run_prefetch(n, fail_at, buf, prog, choices, max_decisions=4000):
  """Returns (observed, trace, problems)."""
  s = hs.Scheduler(choices, max_decisions=max_decisions)
  fake = hs.FakeThreading(s)
  old = pi_mod.threading
  pi_mod.threading = fake
  observed = []
  problem = None
  try:
    with warnings.catch_warnings():
      warnings.simplefilter('ignore')
      src = Source(n, fail_at, s.point)
      it = pi_mod.PrefetchIterator(src, buf)
      closed = False
      for act in prog:
        if act == 'close':
          it.close()
          closed = True
          observed.append(['closed'])
        else:
          try:
            v = next(it)
            observed.append(['item', v[1]])
          except StopIteration:
            observed.append(['stop'])
          except SourceError:
            observed.append(['error'])
      if not closed:
        it.close()
      it._thread.join()
      if s.alive():
        problem = 'producer thread still alive after close()'
  except hs.Deadlock as e:
    problem = f'deadlock: {e}'
  finally:
    pi_mod.threading = old
    s.shutdown()
  for e in s.errors:
    if not isinstance(e, hs.Deadlock) and problem is None:
      problem = f'exception escaped the producer thread: {e!r}'
  return observed, s.trace, problem


def judge_prefetch(n, fail_at, observed, problem):
  """Validity predicate over what the consumer saw."""
  require(problem is None, lambda: f'{problem}; consumer saw {observed}')
  p = n if fail_at is None or fail_at > n else fail_at
  fails = fail_at is not None and fail_at <= n
  items, terminals, closed_at = [], [], None
  for ev in observed:
    if ev[0] == 'closed':
      closed_at = len(items) + len(terminals)
      continue
    if ev[0] == 'item':
      # close() is outside the property: after an explicit close the only
      # demands are order, no duplication, no deadlock, producer exit.
      require(not terminals or closed_at is not None, lambda: 'item delivered '
              f'after the end/exception: {observed}')
      items.append(ev[1])
    else:
      if ev[0] == 'error':
        require(fails and len(items) == p, lambda: 'error surfaced before '
                f'the items that preceded it: {observed}')
      terminals.append(ev[0])
  require(items == list(range(len(items))), lambda: 'items out of order, '
          f'duplicated or skipped: {observed}')
  require(len(items) <= p, lambda: f'more items than the source produced '
          f'before failing: {observed}')
  if terminals and closed_at is None:
    term = terminals[0]
    require(len(set(terminals)) <= 1, lambda: f'end state not stable: '
            f'{observed}')
    require(len(items) == p, lambda: f'iteration ended after {len(items)} '
            f'items, source had {p} before its end/exception: {observed}')
    require(term == ('error' if fails else 'stop'), lambda: 'source '
            f'{"raised at " + str(fail_at) if fails else "ended normally"}'
            f' but the consumer saw {term!r}: {observed}')


def prefetch_case():
  return st.tuples(
      st.integers(0, 5),                      # n items
      st.one_of(st.none(), st.integers(0, 5)),  # fail_at
      st.integers(1, 4),                      # buffer size
      st.one_of(st.none(), st.integers(0, 7)),  # close after k nexts
      st.lists(st.integers(0, 3), max_size=60))  # schedule choices


def make_prog(n, close_after):
  prog = ['next'] * (n + 2)
  if close_after is not None:
    k = min(close_after, len(prog))
    prog = prog[:k] + ['close'] + prog[k:]
  return prog


@clause('prefetch_iterator_schedules', strategy=prefetch_case, quick=1500,
        thorough=60000, quick_shards=4,
        rule='source length 0-5 x failing position x buffer size 1-4 x '
        'optional close() x Hypothesis-drawn schedule (choice sequence for '
        'the serialising scheduler); consumer must see items 0..p-1 in order '
        'then the source exception / StopIteration, stably, no deadlock, '
        'producer exits after close; non-trivial = >=2 pre-emptions taken '
        'and (a failing position or >=2 items)')
def prefetch_iterator_schedules(case, ctx):
  n, fail_at, buf, close_after, choices = case
  prog = make_prog(n, close_after)
  observed, trace, problem = run_prefetch(n, fail_at, buf, prog, choices)
  judge_prefetch(n, fail_at, observed, problem)
  pre = sum(1 for _, c in trace if c)
  ctx.note(labels=['fail' if fail_at is not None and fail_at <= n else 'nofail',
                   'first-item-fail' if fail_at == 0 else 'x',
                   'close' if close_after is not None else 'noclose',
                   f'preempt{min(pre, 5)}'],
           nontrivial=pre >= 2 and (fail_at is not None or n >= 2))


def enum_prefetch(ctx):
  bound = 3 if ctx.tier == 'quick' else 4
  configs = []
  nmax = 2 if ctx.tier == 'quick' else 3
  for n in range(0, nmax + 1):
    for fail_at in [None] + list(range(0, n + 1)):
      for buf in (1, 2):
        configs.append([n, fail_at, buf, bound])
  ctx.extra['configs'] = len(configs)
  ctx.extra['preemption_bound'] = bound
  return configs


@clause('prefetch_iterator_exhaustive', enum=enum_prefetch, quick_shards=8,
        thorough_shards=16, exhaustive=True,
        rule='for every (length<=2|3, failing position, buffer 1-2): ALL '
        'schedules of the serialising scheduler with at most 3 (quick) / 4 '
        '(thorough) pre-emptions, enumerated by DFS over choice sequences; '
        'each schedule counts as one evaluation; non-trivial = schedule has '
        '>=1 pre-emption')
def prefetch_iterator_exhaustive(case, ctx):
  n, fail_at, buf, bound = case
  prog = make_prog(n, None)
  count = 0
  def run(choices):
    observed, trace, problem = run_prefetch(n, fail_at, buf, prog, choices)
    return trace, (observed, problem)
  for choices, trace, (observed, problem) in hs.explore_all(
      run, max_schedules=200000, preemption_bound=bound):
    count += 1
    try:
      judge_prefetch(n, fail_at, observed, problem)
    except Violation as v:
      raise Violation(f'{v} [n={n} fail_at={fail_at} buf={buf} '
                      f'schedule={choices}]') from None
    if any(c for _, c in trace):
      ctx.note(nontrivial=True, case=[n, fail_at, buf, choices])
  ctx.evaluations += count - 1
  ctx.note(labels=[f'n{n}'])
  ctx.extra.setdefault('schedules', 0)
  ctx.extra['schedules'] += count


@clause('prefetch_iterator_natural',
        strategy=lambda: st.tuples(st.integers(0, 6),
                                   st.one_of(st.none(), st.integers(0, 6)),
                                   st.integers(1, 3)),
        quick=150, thorough=3000, shrink=False,
        rule='real OS threads, no harness scheduling (the OS picks the '
        'interleaving): same oracle; non-trivial = failing position set')
def prefetch_iterator_natural(case, ctx):
  n, fail_at, buf = case
  src = Source(n, fail_at, lambda what: None)
  with warnings.catch_warnings():
    warnings.simplefilter('ignore')
    it = pi_mod.PrefetchIterator(src, buf)
  observed = []
  for _ in range(n + 2):
    try:
      observed.append(['item', next(it)[1]])
    except StopIteration:
      observed.append(['stop'])
    except SourceError:
      observed.append(['error'])
  it.close()
  it._thread.join(timeout=20)
  if it._thread.is_alive():
    raise HarnessError('producer did not stop within 20 s (inconclusive)')
  judge_prefetch(n, fail_at, observed, None)
  ctx.note(nontrivial=fail_at is not None and fail_at <= n)


# ----------------------------------------------------------------------------
# prefetch_to_device
# ----------------------------------------------------------------------------
@clause('prefetch_to_device',
        strategy=lambda: st.tuples(st.integers(0, 8),
                                   st.one_of(st.none(), st.integers(0, 8)),
                                   st.integers(1, 4), st.integers(0, 3)),
        quick=300, thorough=5000,
        rule='source (a generator, or a plain iterator object that stays '
        'usable after raising) of length 0-8 x failing position x buffer size '
        '1-4 x item pytree shape; consumer sees every item before the failure, in order, '
        'values intact, then the exception / end; non-trivial = failure at a '
        'position inside the prefetch window or length > buffer size')
def prefetch_to_device(case, ctx):
  n, fail_at, size, kind = case
  devs = jax.local_devices()
  nd = len(devs)
  def item(i):
    a = np.full((nd, 2), i, np.float32)
    if kind == 0:
      return a
    if kind == 1:
      return {'x': a, 'y': (a + 0.5, np.full((nd,), i, np.int32))}
    if kind == 2:
      return [a, a * 2]
    return {'only': a}
  def gen():
    for i in range(n):
      if fail_at is not None and i == fail_at:
        raise SourceError(f'boom at {i}')
      yield item(i)
    if fail_at is not None and fail_at >= n and fail_at == n:
      raise SourceError('boom at end')
  class Reader:
    """A plain iterator object (a record reader with a cursor): unlike a
    generator it stays usable after it raised."""

    def __init__(self):
      self.i = 0

    def __iter__(self):
      return self

    def __next__(self):
      i = self.i
      self.i += 1
      if fail_at is not None and i == fail_at and i <= n:
        raise SourceError(f'boom at {i}')
      if i >= n + (1 if fail_at is not None and fail_at <= n else 0):
        raise StopIteration
      return item(i if fail_at is None or i < fail_at else i - 1 + 100)
  fails = fail_at is not None and fail_at <= n
  p = fail_at if fails else n
  got, end = [], None
  # the source is a generator or a plain iterator object
  source = gen() if (n + size + kind) % 2 == 0 else Reader()
  with sut('prefetch_to_device'):
    it = jax_utils.prefetch_to_device(source, size)
    while True:
      try:
        got.append(next(it))
      except StopIteration:
        end = 'stop'
        break
      except SourceError:
        end = 'error'
        break
      if len(got) > n + 2:
        break
  require(len(got) == p, lambda: f'{len(got)} items delivered, source produced '
          f'{p} before its {"exception" if fails else "end"} (size={size})')
  for i, g in enumerate(got):
    exp = item(i)
    le, lg = jax.tree_util.tree_leaves(exp), jax.tree_util.tree_leaves(g)
    require(jax.tree_util.tree_structure(exp) == jax.tree_util.tree_structure(g)
            and all(np.array_equal(np.asarray(a), np.asarray(b))
                    for a, b in zip(le, lg)),
            f'item {i} delivered out of order or with changed values')
  require(end == ('error' if fails else 'stop'), lambda: f'source '
          f'{"raised" if fails else "ended"} but consumer saw {end}')
  ctx.note(labels=['fail' if fails else 'nofail',
                   'generator' if (n + size + kind) % 2 == 0 else 'reader'],
           nontrivial=(fails and p < size + 2) or n > size)


# ----------------------------------------------------------------------------
# pad_shard_unpad
# ----------------------------------------------------------------------------
class patched_devices:
  def __init__(self, d):
    self.d = d

  def __enter__(self):
    self.old = jax.local_device_count
    jax.local_device_count = lambda *a, **k: self.d

  def __exit__(self, *a):
    jax.local_device_count = self.old


def psu_case():
  return st.tuples(
      st.integers(1, 40), st.integers(1, 8),
      st.one_of(st.none(), st.integers(1, 6)),
      st.integers(0, 3),          # tree kind
      st.booleans(),              # kwargs array
      st.booleans(),              # static kwarg
      st.integers(0, 10**6))


@clause('pad_shard_unpad', strategy=psu_case, quick=1500, thorough=60000,
        rule='batch 1-40 x device count 1-8 x min_device_batch None/1-6 x '
        'input pytree shape x array kwarg x static kwarg; wrapped function is '
        'a per-example map over the (device, per-device-batch) dims that also '
        'records the shapes it receives; output must equal the per-example '
        'function on the unpadded batch; non-trivial = batch not divisible by '
        'devices or min_device_batch forces extra padding')
def pad_shard_unpad(case, ctx):
  b, d, mdb, kind, use_kw, use_static_kw, seed = case
  rng = np.random.default_rng(seed)
  x = rng.normal(size=(b, 3)).astype(np.float32)
  y = rng.integers(0, 9, size=(b,)).astype(np.int32)
  z = rng.normal(size=(b, 2, 2)).astype(np.float32)
  params = {'w': np.float32(1.5)}
  seen = {}
  def per_example(params, xi, yi, zi, scale):
    return {'s': params['w'] * xi.sum() * scale + yi, 'z': zi.T + yi,
            'pair': (xi * 2, yi)}
  def wrapped(params, tree, extra=None, scale=1.0):
    if kind == 0:
      xs, ys = tree
    elif kind == 1:
      xs, ys = tree['x'], tree['y']
    elif kind == 2:
      xs, ys = tree[0], tree[1]['y']
    else:
      xs, ys = tree['a']['x'], tree['a']['y']
    zs = extra if extra is not None else np.zeros(xs.shape[:2] + (2, 2),
                                                  np.float32)
    seen['shape'] = xs.shape
    require(params is wrapped.params, 'static arg 0 was not forwarded as-is')
    dd, db = xs.shape[:2]
    out = None
    rows = []
    for i in range(dd):
      row = [per_example(params, xs[i, j], ys[i, j], zs[i, j], scale)
             for j in range(db)]
      rows.append(jax.tree_util.tree_map(lambda *a: np.stack(a), *row))
    return jax.tree_util.tree_map(lambda *a: np.stack(a), *rows)
  wrapped.params = params
  if kind == 0:
    tree = (x, y)
  elif kind == 1:
    tree = {'x': x, 'y': y}
  elif kind == 2:
    tree = [x, {'y': y}]
  else:
    tree = {'a': {'x': x, 'y': y}}
  kw = {}
  if use_kw:
    kw['extra'] = z
  if use_static_kw:
    kw['scale'] = 2.0
  with patched_devices(d):
    with sut('pad_shard_unpad'):
      f = jax_utils.pad_shard_unpad(wrapped, static_argnames=('scale',))
      out = f(params, tree, min_device_batch=mdb, **kw)
  db = -(-b // d)
  if mdb and db < mdb:
    db = mdb
  require(seen['shape'] == (d, db, 3), lambda: f'wrapped saw shape '
          f'{seen["shape"]}, expected {(d, db, 3)} (b={b}, d={d}, mdb={mdb})')
  zz = z if use_kw else np.zeros((b, 2, 2), np.float32)
  sc = 2.0 if use_static_kw else 1.0
  exp_rows = [per_example(params, x[i], y[i], zz[i], sc) for i in range(b)]
  exp = jax.tree_util.tree_map(lambda *a: np.stack(a), *exp_rows)
  le, lo = jax.tree_util.tree_leaves(exp), jax.tree_util.tree_leaves(out)
  require(jax.tree_util.tree_structure(exp) == jax.tree_util.tree_structure(out),
          'output tree structure changed')
  for a, o in zip(le, lo):
    require(np.asarray(o).shape == a.shape, lambda: f'output shape '
            f'{np.asarray(o).shape} != {a.shape} (b={b}, d={d}, mdb={mdb})')
    require(np.allclose(np.asarray(o), a, rtol=1e-6, atol=1e-6),
            f'output values differ from per-example evaluation (b={b}, d={d})')
  # static_return: output passed through untouched
  with patched_devices(d):
    with sut('pad_shard_unpad(static_return)'):
      g = jax_utils.pad_shard_unpad(lambda p, t: ('metrics', 7),
                                    static_return=True)
      r = g(params, tree, min_device_batch=mdb)
  require(r == ('metrics', 7), 'static_return value was modified')
  ctx.note(labels=[f'd{d}', 'mdb' if mdb else 'nomdb',
                   'div' if b % d == 0 else 'nondiv'],
           nontrivial=(b % d != 0) or bool(mdb and -(-b // d) < mdb))


# ----------------------------------------------------------------------------
# scan_in_dim
# ----------------------------------------------------------------------------
def sid_case():
  return st.integers(1, 4).flatmap(lambda rank: st.tuples(
      st.lists(st.integers(1, 3), min_size=rank, max_size=rank),
      st.permutations(list(range(rank))).flatmap(
          lambda perm: st.integers(1, rank).map(lambda k: perm[:k])),
      st.booleans(),
      st.one_of(st.integers(1, 3), st.lists(st.integers(1, 3), min_size=1,
                                            max_size=rank)),
      st.booleans(), st.integers(0, 10**6),
      # which of the scan axes are spelled as negative indices
      st.lists(st.booleans(), min_size=rank, max_size=rank)))


@clause('scan_in_dim', strategy=sid_case, quick=300, thorough=8000,
        shrink=False, x64=True,
        rule='rank 1-4 arrays (dims 1-3) x ordered tuple of distinct scan '
        'axes (each spelled as a positive or negative index) x keepdims x unroll (int or tuple) x pytree xs; reference = '
        'nested Python loops in the order of the axis tuple; non-trivial = '
        '>=2 scan axes or scan axis != 0')
def scan_in_dim(case, ctx):
  shape, axes, keepdims, unroll, as_tree, seed, *rest = case
  axes = tuple(axes)
  negs = rest[0] if rest else [False] * len(axes)
  spelled = tuple(a - len(shape) if n else a for a, n in zip(axes, negs))
  if isinstance(unroll, list):
    unroll = tuple(unroll[:len(axes)])
  rng = np.random.default_rng(seed)
  xs = rng.normal(size=shape)
  xs2 = rng.normal(size=shape)
  def body(c, x):
    if as_tree:
      a, b = x['a'], x['b']
    else:
      a, b = x, x
    s = jnp.sum(a) + 0.5 * jnp.sum(b)
    c2 = c * 0.9 + s
    y = a * 2.0 + c
    return c2, ({'y': y, 'c': c2 * jnp.ones_like(b)} if as_tree else y)
  inp = {'a': jnp.asarray(xs), 'b': jnp.asarray(xs2)} if as_tree else \
      jnp.asarray(xs)
  with sut('scan_in_dim'):
    c, ys = jax_utils.scan_in_dim(body, jnp.asarray(0.25), inp, axis=spelled,
                                  unroll=unroll, keepdims=keepdims)
  # reference
  rc = 0.25
  out_y = np.zeros(shape)
  out_c = np.zeros(shape)
  for idx in itertools.product(*[range(shape[a]) for a in axes]):
    sl = [slice(None)] * len(shape)
    for a, i in zip(axes, idx):
      sl[a] = slice(i, i + 1) if keepdims else i
    xa, xb = xs[tuple(sl)], (xs2 if as_tree else xs)[tuple(sl)]
    s = xa.sum() + 0.5 * xb.sum()
    c2 = rc * 0.9 + s
    y = xa * 2.0 + rc
    sl_out = [slice(None)] * len(shape)
    for a, i in zip(axes, idx):
      sl_out[a] = slice(i, i + 1) if keepdims else i
    out_y[tuple(sl_out)] = y
    out_c[tuple(sl_out)] = c2
    rc = c2
  require(np.allclose(np.asarray(c), rc, rtol=1e-9, atol=1e-11),
          lambda: f'final carry {float(c)} != loop {rc}')
  got_y = np.asarray(ys['y'] if as_tree else ys)
  require(got_y.shape == tuple(shape), lambda: f'ys shape {got_y.shape} != '
          f'{tuple(shape)} (axis={spelled})')
  require(np.allclose(got_y, out_y, rtol=1e-9, atol=1e-11),
          lambda: f'ys differ from nested loop (axis={spelled}, keepdims='
          f'{keepdims})')
  if as_tree:
    require(np.allclose(np.asarray(ys['c']), out_c, rtol=1e-9, atol=1e-11),
            'second output differs from nested loop')
  ctx.note(labels=[f'naxes{len(axes)}', 'keepdims' if keepdims else 'nokeep']
           + (['negative-axis'] if any(a < 0 for a in spelled) else []),
           nontrivial=len(axes) >= 2 or axes[0] != 0)


# ----------------------------------------------------------------------------
# reshapes
# ----------------------------------------------------------------------------
@clause('reshapes',
        strategy=lambda: st.tuples(st.integers(1, 6), st.integers(1, 5),
                                   st.lists(st.integers(1, 3), max_size=2),
                                   st.integers(1, 4), st.integers(0, 10**6)),
        quick=400, thorough=10000, shrink=False,
        rule='device count 1-6 x per-device batch 1-5 x trailing shape x '
        'forest size: shard, stack_forest, onehot, replicate/unreplicate vs '
        'NumPy reshapes; non-trivial = device count >= 2')
def reshapes(case, ctx):
  d, per, rest, k, seed = case
  rng = np.random.default_rng(seed)
  x = rng.normal(size=(d * per, *rest)).astype(np.float32)
  tree = {'x': x, 'n': (x[:, ...] + 1,)}
  with patched_devices(d):
    with sut('shard'):
      sh = common_utils.shard(tree)
  require(np.array_equal(sh['x'], x.reshape((d, per) + tuple(rest)))
          and np.array_equal(sh['n'][0], (x + 1).reshape((d, per) + tuple(rest))),
          'shard is not reshape(local_device_count, -1, ...)')
  forest = [{'a': rng.normal(size=(2,)), 'b': (np.float64(i),)}
            for i in range(k)]
  with sut('stack_forest'):
    stk = common_utils.stack_forest(forest)
  require(np.array_equal(stk['a'], np.stack([f['a'] for f in forest]))
          and np.array_equal(stk['b'][0], np.stack([f['b'][0] for f in forest])),
          'stack_forest is not a leaf-wise stack')
  # host-side metrics keep their dtype and value: 64-bit counters, Python
  # floats (time stamps), float32, int32, bool
  big = 2**31 + 7 + seed
  forest2 = [{'count': np.int64(big + i), 't': 1.79e9 + i + 0.25,
              'f32': np.float32(i) * 0.5, 'i32': np.int32(i), 'flag': i % 2 == 0,
              'vec': np.arange(3, dtype=np.float64) + 16777217.0 + i}
             for i in range(k)]
  with sut('stack_forest(host metrics)'):
    stk2 = common_utils.stack_forest(forest2)
  for name in forest2[0]:
    exp2 = np.stack([f[name] for f in forest2])
    got2 = np.asarray(stk2[name])
    require(got2.dtype == exp2.dtype and np.array_equal(got2, exp2), lambda:
            f'stack_forest leaf {name!r}: got {got2!r} ({got2.dtype}), '
            f'np.stack gives {exp2!r} ({exp2.dtype})')
  ncls = 1 + seed % 5
  labels = rng.integers(0, ncls, size=(per, *rest[:1]))
  on, off = float(seed % 3 + 1), float(-(seed % 2))
  with sut('onehot'):
    oh = np.asarray(common_utils.onehot(jnp.asarray(labels), ncls,
                                        on_value=on, off_value=off))
  exp = np.where(labels[..., None] == np.arange(ncls), on, off).astype(
      np.float32)
  require(oh.dtype == np.float32 and oh.shape == exp.shape
          and np.array_equal(oh, exp), 'onehot differs from reference')
  devs = [jax.local_devices()[0]] * d
  small = {'w': x[:2], 'b': np.float32(3.0)}
  with sut('replicate'):
    rep = jax_utils.replicate(small, devices=devs)
    unrep = jax_utils.unreplicate(rep)
  require(np.asarray(rep['w']).shape == (d,) + x[:2].shape and all(
      np.array_equal(np.asarray(rep['w'][i]), x[:2]) for i in range(d)),
      'replicate is not a stack of copies')
  require(np.array_equal(np.asarray(unrep['w']), x[:2])
          and float(unrep['b']) == 3.0, 'unreplicate(replicate(t)) != t')
  ctx.note(nontrivial=d >= 2, labels=[f'd{d}'])
