"""C15 — FrozenDict and struct dataclasses are immutable values / pytrees."""
from __future__ import annotations

import copy as pycopy
import dataclasses
import pickle

import numpy as np
from hypothesis import strategies as st

from harness.core import begin, clause, Violation, sut, require, expect_raises

import jax
import jax.numpy as jnp
import flax
from flax import struct
from flax import core as fcore
from flax.core import FrozenDict, freeze, unfreeze

begin('C15')

ASSUMPTIONS = [
    'lists/tuples/arrays inside a FrozenDict are leaves (flax copies dict '
    'nodes only); the mutator changes dict nodes reachable through dict-only '
    'paths and never mutates a list that was passed in',
]

KEYS = ['a', 'b', 'c', 'k']

# node spec: {"d": [[key, node]...], "frozen": bool} | {"leaf": [kind, v]}


def node_strategy(allow_frozen=True, hashable=False, min_size=0):
  if hashable:
    leaf = st.one_of(
        st.integers(-2, 3).map(lambda i: {'leaf': ['int', i]}),
        st.sampled_from(['x', 'y']).map(lambda s: {'leaf': ['str', s]}),
        st.lists(st.integers(0, 2), max_size=2).map(
            lambda l: {'leaf': ['tuple', l]}))
  else:
    leaf = st.one_of(
        st.integers(-2, 3).map(lambda i: {'leaf': ['int', i]}),
        st.lists(st.integers(0, 2), max_size=2).map(
            lambda l: {'leaf': ['list', l]}),
        st.lists(st.integers(0, 2), max_size=2).map(
            lambda l: {'leaf': ['tuple', l]}),
        st.integers(0, 3).map(lambda i: {'leaf': ['arr', i]}),
        # a dict held inside a list / tuple value
        st.integers(0, 3).map(lambda i: {'leaf': ['listdict', i]}),
        st.integers(0, 3).map(lambda i: {'leaf': ['tupledict', i]}))
  def ext(inner):
    return st.tuples(
        st.lists(st.tuples(st.sampled_from(KEYS), inner), min_size=min_size,
                 max_size=3, unique_by=lambda kv: kv[0]),
        st.booleans() if allow_frozen else st.just(False),
    ).map(lambda t: {'d': [list(kv) for kv in t[0]], 'frozen': t[1]})
  return ext(st.recursive(leaf, ext, max_leaves=8))


def build(n, top=True):
  if 'leaf' in n:
    kind, v = n['leaf']
    if kind == 'arr':
      return np.arange(v, dtype=np.float32)
    if kind == 'tuple':
      return tuple(v)
    if kind == 'list':
      return list(v)
    if kind == 'listdict':
      return [{'q': v, 'r': {'s': v}}, v]
    if kind == 'tupledict':
      return ({'q': v},)
    return v
  d = {k: build(v, False) for k, v in n['d']}
  if n.get('frozen') and not top:
    return FrozenDict(d)
  return d


def is_map(x):
  return isinstance(x, (dict, FrozenDict))


def snap(x):
  """Immutable structural snapshot. dict/FrozenDict -> ('D', ((k, snap)...))."""
  if is_map(x):
    src = x._dict if isinstance(x, FrozenDict) else x
    return ('D', tuple(sorted((k, snap(v)) for k, v in src.items())))
  if isinstance(x, np.ndarray):
    return ('A', str(x.dtype), x.shape, x.tobytes())
  if isinstance(x, list):
    return ('L', tuple(snap(v) for v in x))
  if isinstance(x, tuple):
    return ('T', tuple(snap(v) for v in x))
  return ('V', repr(x))


def snap_public(fd):
  """Snapshot of a FrozenDict through its public API only."""
  if isinstance(fd, FrozenDict):
    return ('D', tuple(sorted((k, snap_public(fd[k])) for k in fd)))
  if isinstance(fd, dict):
    return ('D', tuple(sorted((k, snap_public(v)) for k, v in fd.items())))
  return snap(fd)


def snap_get(s, key):
  assert s[0] == 'D'
  for k, v in s[1]:
    if k == key:
      return v
  raise KeyError(key)


def snap_set(s, key, v):
  items = dict(s[1])
  items[key] = v
  return ('D', tuple(sorted(items.items())))


def snap_del(s, key):
  items = dict(s[1])
  del items[key]
  return ('D', tuple(sorted(items.items())))


def mutable_dicts(x, out, seen, deep=False):
  """All plain dict nodes reachable through dict-only paths (deep: also
  through list / tuple values)."""
  if isinstance(x, dict) and id(x) not in seen:
    seen.add(id(x))
    out.append(x)
    for v in x.values():
      mutable_dicts(v, out, seen, deep)
  elif deep and isinstance(x, (list, tuple)):
    for v in x:
      mutable_dicts(v, out, seen, deep)


OPS = ['new_source', 'freeze', 'unfreeze', 'copy', 'pop', 'getitem', 'iterate',
       'repr', 'pickle', 'treeflat', 'treemap', 'mutate', 'forbidden',
       'refreeze', 'corecopy', 'corepop']


def history_strategy():
  weighted = OPS + ['freeze'] * 3 + ['unfreeze'] * 3 + ['mutate'] * 5 + [
      'copy', 'pop', 'getitem', 'iterate', 'corecopy', 'corepop']
  op = st.tuples(st.sampled_from(weighted), st.integers(0, 1000),
                 st.integers(0, 1000), st.integers(0, 5),
                 node_strategy(min_size=0))
  return st.tuples(node_strategy(min_size=1),
                   st.lists(op, min_size=10, max_size=30))


class Model:
  def __init__(self):
    self.sources = []     # mutable python dicts the user owns
    self.frozen = []      # (FrozenDict, snapshot at creation)
    self.returned = []    # mutable objects flax returned
    self.unfrozen = []    # results of unfreeze (fresh all the way down)
    self.stats = {'mutations': 0, 'mut_after_freeze': 0, 'ops': 0}

  def add_frozen(self, fd, s):
    require(isinstance(fd, FrozenDict), f'expected FrozenDict, got {type(fd)}')
    self.frozen.append((fd, s))

  def check_all(self, after):
    for i, (fd, s) in enumerate(self.frozen):
      with sut('reading FrozenDict'):
        cur = snap_public(fd)
        raw = snap(fd)
      require(cur == s and raw == s, lambda: f'FrozenDict #{i} changed after '
              f'{after}: now {cur!r}, at construction {s!r}')


def run_history(case, ctx):
  src0, ops = case
  m = Model()
  m.sources.append(build(src0))
  labels = set()
  for op, i, j, k, spec in ops:
    m.stats['ops'] += 1
    if op == 'new_source':
      m.sources.append(build(spec))
    elif op == 'freeze':
      src = m.sources[i % len(m.sources)]
      s = snap(src)
      with sut('freeze'):
        if j % 3 == 0:
          fd = freeze(src)
        elif j % 3 == 1:
          fd = FrozenDict(src)
        else:
          fd = FrozenDict(**src)
      m.add_frozen(fd, s)
    elif not m.frozen and op not in ('mutate',):
      continue
    elif op == 'refreeze':
      fd, s = m.frozen[i % len(m.frozen)]
      with sut('freeze(FrozenDict)'):
        fd2 = freeze(fd) if j % 2 else FrozenDict({'w': fd, 'n': {'q': fd}})
      m.add_frozen(fd2, s if j % 2 else
                   ('D', (('n', ('D', (('q', s),))), ('w', s))))
    elif op == 'unfreeze':
      fd, s = m.frozen[i % len(m.frozen)]
      with sut('unfreeze'):
        d = unfreeze(fd) if j % 2 else fd.unfreeze()
      require(type(d) is dict and snap(d) == s, 'unfreeze(fd) != contents')
      def no_frozen(x):
        if isinstance(x, FrozenDict):
          return False
        return all(no_frozen(v) for v in x.values()) if isinstance(x, dict) else True
      require(no_frozen(d), 'unfreeze left a nested FrozenDict')
      m.returned.append(d)
      m.unfrozen.append(d)
    elif op in ('copy', 'corecopy'):
      fd, s = m.frozen[i % len(m.frozen)]
      add = build(spec)
      if j % 6 == 0:
        add_arg = FrozenDict(add)
      else:
        # any Mapping is accepted: plain dict, read-only proxy, ChainMap,
        # UserDict -- all views of `add`, which the caller may mutate later
        import collections as _c
        import types as _t
        add_arg = [add, _t.MappingProxyType(add), _c.ChainMap(add),
                   _c.UserDict(add), _c.OrderedDict(add)][j % 5]
        if j % 5 == 3:
          m.sources.append(add_arg.data)
        elif j % 5 == 4:
          m.sources.append(add_arg)
        m.sources.append(add)
        labels.add('copy-' + type(add_arg).__name__)
      s2 = s
      for kk, vv in add.items():
        s2 = snap_set(s2, kk, snap(vv))
      with sut('copy'):
        fd2 = fd.copy(add_arg) if op == 'copy' else fcore.copy(fd, add_arg)
      m.add_frozen(fd2, s2)
      labels.add('copy')
    elif op in ('pop', 'corepop'):
      fd, s = m.frozen[i % len(m.frozen)]
      keys = sorted(fd.keys())
      if not keys:
        expect_raises(KeyError, lambda: fd.pop('nope'), 'pop missing key')
        continue
      key = keys[j % len(keys)]
      with sut('pop'):
        fd2, val = fd.pop(key) if op == 'pop' else fcore.pop(fd, key)
      m.add_frozen(fd2, snap_del(s, key))
      vs = snap_get(s, key)
      require(snap(val) == vs, 'pop returned a different value')
      if isinstance(val, FrozenDict):
        m.add_frozen(val, vs)
      else:
        m.returned.append(val)
    elif op == 'getitem':
      fd, s = m.frozen[i % len(m.frozen)]
      keys = sorted(fd.keys())
      if not keys:
        continue
      key = keys[j % len(keys)]
      with sut('getitem'):
        val = fd[key] if k % 2 else fd.get(key)
      vs = snap_get(s, key)
      require(snap(val) == vs, 'fd[key] differs from contents')
      require(not isinstance(val, dict), 'fd[key] returned a mutable dict')
      if isinstance(val, FrozenDict):
        m.add_frozen(val, vs)
    elif op == 'iterate':
      fd, s = m.frozen[i % len(m.frozen)]
      with sut('iterate'):
        items = list(fd.items())
        vals = list(fd.values())
        ks = list(fd.keys())
      require(ks == list(fd) and [a for a, _ in items] == ks, 'key order')
      for (kk, v), v2 in zip(items, vals):
        vs = snap_get(s, kk)
        require(snap(v) == vs and snap(v2) == vs, 'items()/values() content')
        require(not isinstance(v, dict) and not isinstance(v2, dict),
                'iteration returned a mutable nested dict')
        if isinstance(v, FrozenDict):
          m.add_frozen(v, vs)
          m.add_frozen(v2, vs)
    elif op == 'repr':
      fd, s = m.frozen[i % len(m.frozen)]
      with sut('repr'):
        r1 = repr(fd)
        r2 = fcore.pretty_repr(fd)
        r3 = fd.pretty_repr(2)
      require(r1.startswith('FrozenDict(') and r2 == r1, 'pretty_repr')
    elif op == 'pickle':
      fd, s = m.frozen[i % len(m.frozen)]
      with sut('pickle'):
        if j % 3 == 0:
          fd2 = pickle.loads(pickle.dumps(fd))
        elif j % 3 == 1:
          fd2 = pycopy.deepcopy(fd)
        else:
          fd2 = pycopy.copy(fd)
      m.add_frozen(fd2, s)
    elif op == 'treeflat':
      fd, s = m.frozen[i % len(m.frozen)]
      with sut('tree flatten/unflatten'):
        leaves, td = jax.tree_util.tree_flatten(fd)
        fd2 = jax.tree_util.tree_unflatten(td, leaves)
        kl, _ = jax.tree_util.tree_flatten_with_path(fd)
      m.add_frozen(fd2, s)
      labels.add('treeflat')
    elif op == 'treemap':
      fd, s = m.frozen[i % len(m.frozen)]
      with sut('tree_map'):
        fd2 = jax.tree_util.tree_map(lambda x: x, fd)
      m.add_frozen(fd2, s)
    elif op == 'forbidden':
      fd, s = m.frozen[i % len(m.frozen)]
      which = j % 4
      if which == 0:
        expect_raises((ValueError, TypeError),
                      lambda: fd.__setitem__('a', 1), 'fd[k] = v')
      elif which == 1:
        def dele():
          del fd['a']
        expect_raises((ValueError, TypeError, AttributeError), dele,
                      'del fd[k]')
      elif which == 2:
        def seta():
          fd.foo = 1
        expect_raises((AttributeError, TypeError, ValueError), seta,
                      'fd.attr = v')
      else:
        for meth in ('update', 'clear', 'setdefault', 'popitem'):
          require(not hasattr(fd, meth), f'FrozenDict exposes {meth}')
    elif op == 'mutate':
      pool, pool_ret = [], []
      seen = set()
      # what unfreeze returns is a copy all the way down, dicts inside list
      # / tuple values included; other returned values and the sources are
      # followed through dicts only (dicts inside sequences are shared with
      # the FrozenDict: known finding C15:dict-inside-sequence-shared)
      for x in m.unfrozen:
        mutable_dicts(x, pool_ret, seen, deep=True)
      for x in m.returned:
        mutable_dicts(x, pool_ret, seen)
      for x in m.sources:
        mutable_dicts(x, pool, seen)
      if pool_ret and k % 2 == 0:
        # dicts handed out by flax, nested ones first
        pool = pool_ret[::-1]
        labels.add('mutate-returned')
      elif not pool:
        continue
      d = pool[i % len(pool)]
      ks = sorted(d.keys())
      m.stats['mutations'] += 1
      if m.frozen:
        m.stats['mut_after_freeze'] += 1
      if ks and j % 3 == 0:
        del d[ks[k % len(ks)]]
      elif ks and j % 3 == 1:
        d[ks[k % len(ks)]] = ('MUTATED', m.stats['ops'])
      else:
        d['new%d' % (k % 2)] = {'deep': ('MUTATED', m.stats['ops'])}
    m.check_all(op)
  ctx.note(labels=sorted(labels),
           nontrivial=m.stats['mut_after_freeze'] >= 1 and len(m.frozen) >= 2)
  if m.stats['mut_after_freeze']:
    ctx.note(labels=['mutation-after-freeze'])


@clause('frozendict_history', strategy=history_strategy, quick=1200,
        thorough=60000, quick_shards=8, thorough_shards=14,
        rule='histories (<=25 steps) of freeze/FrozenDict()/unfreeze/copy/pop/'
        'indexing/iteration/repr/pickle/deepcopy/tree flatten+unflatten/'
        'tree_map/forbidden writes interleaved with mutations of source dicts '
        'and returned dicts; after every step every FrozenDict equals its '
        'creation snapshot; non-trivial = a mutation after >=2 FrozenDicts '
        'exist')
def frozendict_history(case, ctx):
  run_history(case, ctx)


def _perm_case():
  return st.tuples(node_strategy(allow_frozen=True, hashable=True, min_size=1),
                   st.integers(0, 10**6))


def build_permuted(n, seed, top=True):
  if 'leaf' in n:
    return build(n)
  items = list(n['d'])
  rng = np.random.default_rng(seed)
  rng.shuffle(items)
  d = {k: build_permuted(v, seed + 1, False) for k, v in items}
  if n.get('frozen') and not top:
    return FrozenDict(d)
  return d


@clause('frozendict_value_laws', strategy=_perm_case, quick=2000,
        thorough=100000,
        rule='hashable-leaf nested dicts built in two insertion orders: == and '
        'equal hash; pickle and flatten/unflatten give equal values; flatten '
        'order sorted by key; a one-leaf change breaks equality; eleven '
        'derived constructions (FrozenDict(fd), FrozenDict(base, **extra), '
        'freeze(fd), copy with additions, pop of an extra key, ...) from '
        'sources hashed or not hashed beforehand are == and hash-equal to the '
        'direct construction; non-trivial = '
        '>=2 keys at some level and depth>=2')
def frozendict_value_laws(case, ctx):
  n, seed = case
  d1 = build(n)
  d2 = build_permuted(n, seed)
  with sut('freeze'):
    f1, f2 = freeze(d1), freeze(d2)
  with sut('eq/hash'):
    require(f1 == f2, 'equal contents in different insertion order not ==')
    require(hash(f1) == hash(f2), 'equal contents hash differently')
    require(f1 == d1 or True, '')
    p = pickle.loads(pickle.dumps(f1))
    require(p == f1 and hash(p) == hash(f1) and isinstance(p, FrozenDict),
            'pickle round trip not equal')
    leaves, td = jax.tree_util.tree_flatten(f1)
    leaves2, td2 = jax.tree_util.tree_flatten(f2)
    require(td == td2 and leaves == leaves2,
            'pytree flatten depends on insertion order')
    u = jax.tree_util.tree_unflatten(td, leaves)
    require(u == f1 and isinstance(u, FrozenDict), 'unflatten(flatten) != fd')
    kp = [tuple(getattr(k, 'key', getattr(k, 'idx', None)) for k in path)
          for path, _ in jax.tree_util.tree_flatten_with_path(f1)[0]]
  def ref_paths(x, prefix=()):
    if is_map(x):
      out = []
      for k in sorted(x.keys()):
        out += ref_paths(x[k], prefix + (k,))
      return out
    if isinstance(x, tuple):
      out = []
      for i, v in enumerate(x):
        out += ref_paths(v, prefix + (i,))
      return out
    return [prefix]
  require(kp == ref_paths(d1), lambda: f'flatten order {kp} not sorted-by-key '
          f'{ref_paths(d1)}')
  # a changed leaf breaks equality
  def change_first(x):
    for k in sorted(x.keys()):
      v = x[k]
      if is_map(v):
        if len(v) and change_first_possible(v):
          return {**{kk: x[kk] for kk in x.keys()}, k: change_first(v)}
      else:
        return {**{kk: x[kk] for kk in x.keys()}, k: ('changed', v)}
    return x
  def change_first_possible(x):
    return any((not is_map(x[k])) or change_first_possible(x[k])
               for k in x.keys())
  if change_first_possible(f1):
    f3 = freeze(change_first(unfreeze(f1)))
    with sut('eq'):
      require(f3 != f1, 'different contents compare equal')
  # every documented way of deriving a FrozenDict with the same contents,
  # from sources whose hash was or was not computed before, compares and
  # hashes equal to the directly built one
  keys = sorted(d1.keys())
  cut = seed % (len(keys) + 1)
  base = {k: d1[k] for k in keys[:cut]}
  extra = {k: d1[k] for k in keys[cut:]}
  ident = all(isinstance(k, str) and k.isidentifier() for k in extra)
  for prehash in (False, True):
    with sut('derived constructions'):
      bfd = freeze(base)
      whole = freeze(d2)
      if prehash:
        hash(bfd), hash(whole)
      derived = {
          'FrozenDict(fd)': FrozenDict(whole),
          'freeze(fd)': freeze(whole),
          'fd.copy({})': whole.copy({}),
          'base.copy(extra)': bfd.copy(extra),
          'core.copy(base, extra)': fcore.copy(bfd, extra),
          'FrozenDict({**base, **extra})': FrozenDict({**bfd, **extra}),
      }
      if ident:
        derived['FrozenDict(base_fd, **extra)'] = FrozenDict(bfd, **extra)
        derived['FrozenDict(base_dict, **extra)'] = FrozenDict(base, **extra)
        derived['FrozenDict(**contents)'] = (
            FrozenDict(**d1) if all(isinstance(k, str) and k.isidentifier()
                                    for k in d1) else f1)
      if keys:
        more = freeze({**d1, '__extra__': 1})
        if prehash:
          hash(more)
        derived['pop(extra key)'] = more.pop('__extra__')[0]
        derived['core.pop(extra key)'] = fcore.pop(more, '__extra__')[0]
      for how, g in derived.items():
        require(isinstance(g, FrozenDict), lambda: f'{how} is {type(g)}')
        require(g == f1, lambda: f'{how} != FrozenDict built directly from '
                f'the same contents (source hashed before: {prehash})')
        require(hash(g) == hash(f1), lambda: f'{how} == the directly built '
                f'FrozenDict but hashes differently (source hashed before: '
                f'{prehash})')
        require(g in {f1: 1} and f1 in {g: 1}, lambda: f'{how}: dict lookup '
                'misses an equal key')
  def depth(x):
    return 1 + max([depth(v) for _, v in x['d']] + [0]) if 'd' in x else 0
  def wide(x):
    return 'd' in x and (len(x['d']) >= 2 or any(wide(v) for _, v in x['d']))
  ctx.note(nontrivial=depth(n) >= 2 and wide(n))


# ----------------------------------------------------------------------------
# struct.dataclass / PyTreeNode
# ----------------------------------------------------------------------------
def _layout():
  fld = st.tuples(st.booleans(), st.booleans())  # (static?, default?)
  return st.tuples(st.lists(fld, min_size=1, max_size=5),
                   st.sampled_from(['dataclass', 'pytreenode', 'kwonly',
                                    'pytreenode_sub', 'dataclass_sub']),
                   st.integers(0, 10**6),
                   # user metadata given to struct.field: none, a fresh dict
                   # per field, or one dict object shared by all fields
                   st.sampled_from(['none', 'none', 'fresh', 'shared']))


_CLS_CACHE = {}


def make_class(fields, style, meta='none'):
  key = (tuple(map(tuple, fields)), style, meta)
  if key in _CLS_CACHE:
    return _CLS_CACHE[key]
  shared_meta = {'unit': 'metre'}
  def md(name):
    if meta == 'none':
      return {}
    return {'metadata': shared_meta if meta == 'shared' else {'unit': name}}
  # defaults only on a suffix unless kw_only
  seen_default = False
  ann, ns = {}, {}
  names = []
  for i, (static, default) in enumerate(fields):
    name = f'f{i}'
    names.append(name)
    ann[name] = object
    if style != 'kwonly':
      default = default and (seen_default or all(d for _, d in fields[i:]))
      seen_default = seen_default or default
    if static:
      ns[name] = (struct.field(pytree_node=False, default=7 + i, **md(name))
                  if default else struct.field(pytree_node=False, **md(name)))
    elif default:
      ns[name] = struct.field(default=1.5 + i, **md(name))
    elif meta != 'none':
      ns[name] = struct.field(**md(name))
  ns['__annotations__'] = ann
  if style == 'pytreenode':
    cls = type('PNode', (struct.PyTreeNode,), ns)
  elif style == 'pytreenode_sub':
    # a subclass that adds behaviour only (no fields of its own)
    base = type('PNodeBase', (struct.PyTreeNode,), ns)
    cls = type('PNodeSub', (base,), {'describe': lambda self: 'sub'})
  elif style == 'dataclass_sub':
    base = struct.dataclass(type('DNodeBase', (), ns))
    cls = struct.dataclass(type('DNodeSub', (base,), {
        'describe': lambda self: 'sub'}))
  elif style == 'kwonly':
    cls = struct.dataclass(type('KNode', (), ns), kw_only=True)
  else:
    cls = struct.dataclass(type('DNode', (), ns))
  _CLS_CACHE[key] = cls
  return cls


@clause('struct_dataclass', strategy=_layout, quick=250, thorough=8000,
        shrink=False,
        rule='random field layouts (1-5 fields, each data or pytree_node='
        'False, optional defaults, user metadata (none / per field / one '
        'dict shared by all fields), struct.dataclass / PyTreeNode / kw_only '
        '/ method-only subclasses of either): '
        'frozen, replace, leaves == data fields in order, static fields in '
        'treedef, jit retrace iff static changes, tree_map/jit/vmap/grad '
        'rebuild the class; non-trivial = >=1 static and >=1 data field')
def struct_dataclass(case, ctx):
  fields, style, seed, *rest = case
  meta = rest[0] if rest else 'none'
  fields = [tuple(f) for f in fields]
  with sut('struct.dataclass'):
    cls = make_class(fields, style, meta)
  if meta != 'none':
    for f in dataclasses.fields(cls):
      if f.name.startswith('f'):
        require(f.metadata.get('unit') == ('metre' if meta == 'shared'
                                           else f.name),
                lambda: f'user metadata of field {f.name} lost: '
                f'{dict(f.metadata)}')
  names = [f'f{i}' for i in range(len(fields))]
  data = [n for n, (s, _) in zip(names, fields) if not s]
  static = [n for n, (s, _) in zip(names, fields) if s]
  rng = np.random.default_rng(seed)
  vals = {}
  for n, (s, _) in zip(names, fields):
    vals[n] = int(rng.integers(0, 5)) if s else jnp.asarray(
        rng.normal(size=(2,)), jnp.float32)
  with sut('construct'):
    obj = cls(**vals)
  # frozen
  for n in names:
    expect_raises(dataclasses.FrozenInstanceError,
                  lambda n=n: setattr(obj, n, 0), f'setattr {n}')
  expect_raises((dataclasses.FrozenInstanceError, AttributeError),
                lambda: setattr(obj, 'brand_new', 0), 'setattr new attr')
  # replace
  sub = [n for n in names if rng.integers(0, 2)]
  upd = {n: (vals[n] + 1) for n in sub}
  with sut('replace'):
    obj2 = obj.replace(**upd)
  require(obj2 is not obj and type(obj2) is cls, 'replace must return new '
          'instance of the same class')
  for n in names:
    if n in sub:
      require(getattr(obj2, n) is upd[n], f'replace did not set {n}')
    else:
      require(getattr(obj2, n) is vals[n], f'replace changed {n}')
    require(getattr(obj, n) is vals[n], f'replace mutated the original {n}')
  # leaves
  with sut('tree_flatten'):
    leaves, td = jax.tree_util.tree_flatten(obj)
  require(len(leaves) == len(data) and all(
      l is vals[n] for l, n in zip(leaves, data)),
      lambda: f'leaves are not the data fields {data} in order')
  with sut('tree_unflatten'):
    back = jax.tree_util.tree_unflatten(td, leaves)
  require(type(back) is cls and all(getattr(back, n) is vals[n] for n in names),
          'unflatten(flatten(obj)) differs')
  # static in treedef
  if data:
    o_d = obj.replace(**{data[0]: vals[data[0]] * 2})
    require(jax.tree_util.tree_structure(o_d) == td,
            'treedef depends on a data field')
  if static:
    o_s = obj.replace(**{static[-1]: vals[static[-1]] + 1})
    require(jax.tree_util.tree_structure(o_s) != td,
            'static field not part of the treedef')
  # tree_map
  with sut('tree_map'):
    mapped = jax.tree_util.tree_map(lambda x: x + 1, obj)
  require(type(mapped) is cls, 'tree_map changed the class')
  for n in static:
    require(getattr(mapped, n) == vals[n], f'tree_map changed static {n}')
  for n in data:
    require(np.allclose(getattr(mapped, n), vals[n] + 1), f'tree_map data {n}')
  # jit + retrace
  traces = []
  @jax.jit
  def f(o):
    traces.append(1)
    return jax.tree_util.tree_map(lambda x: x * 2, o)
  with sut('jit'):
    r1 = f(obj)
    n1 = len(traces)
    f(obj)
    require(len(traces) == n1, 'identical call retraced')
    if data:
      r2 = f(o_d)
      require(len(traces) == n1, 'data-field change caused a retrace')
    if static:
      r3 = f(o_s)
      require(len(traces) == n1 + 1, 'static-field change did not retrace')
      require(type(r3) is cls and getattr(r3, static[-1]) ==
              vals[static[-1]] + 1, 'jit lost the new static value')
  require(type(r1) is cls, 'jit changed the class')
  for n in static:
    require(getattr(r1, n) == vals[n], f'jit changed static {n}')
  for n in data:
    require(np.allclose(getattr(r1, n), vals[n] * 2), f'jit data {n}')
  # vmap
  if data:
    with sut('vmap'):
      rv = jax.vmap(lambda o: jax.tree_util.tree_map(lambda x: x + 3, o))(obj)
    require(type(rv) is cls and all(getattr(rv, n) == vals[n] for n in static),
            'vmap lost class/static fields')
    for n in data:
      require(np.allclose(getattr(rv, n), vals[n] + 3), f'vmap data {n}')
    with sut('grad'):
      g = jax.grad(lambda o: sum(jnp.sum(getattr(o, n) ** 2) for n in data))(obj)
    require(type(g) is cls and all(getattr(g, n) == vals[n] for n in static),
            'grad lost class/static fields')
    for n in data:
      require(np.allclose(getattr(g, n), 2 * vals[n]), f'grad data {n}')
  ctx.note(labels=[style, f'static{len(static)}', f'data{len(data)}'],
           nontrivial=bool(static) and bool(data))


# ----------------------------------------------------------------------------
@clause('known_probes', enum=lambda ctx: [['source'], ['indexing']],
        quick_shards=1, thorough_shards=1,
        rule='re-executes the recorded reproductions of the known finding '
        '(a dict held inside a list / tuple value is shared with the source '
        'at construction and handed out by indexing)')
def known_probes(case, ctx):
  how = case[0]
  src = {'layers': [{'w': 1}], 'n': 2}
  fd = freeze(src)
  before = snap(fd)
  if how == 'source':
    src['layers'][0]['w'] = 99
  else:
    fd['layers'][0]['w'] = 99
  if snap(fd) != before:
    raise Violation(f'FrozenDict changed after construction through a dict '
                    f'nested in a list value ({how}): {fd}',
                    key='C15:dict-inside-sequence-shared')

