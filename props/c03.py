"""C03 — NNX split/merge round-trip, filters, update/clone/pop/state."""
from __future__ import annotations

import itertools

import numpy as np
from hypothesis import strategies as st

from harness.core import begin, clause, Violation, sut, require, expect_raises
from harness import nnx_graph as G

import jax
import jax.numpy as jnp
from flax import nnx
from flax.nnx import statelib, filterlib

begin('C03')

ASSUMPTIONS = [
    'object identity is tracked for nnx.Object instances and Variables only; '
    'Python lists/tuples/dicts are pytrees to NNX and are compared by value '
    '(a list referenced twice legitimately comes back as two equal lists)',
    'graphs are built from three harness Module classes, four Variable types, '
    'list/tuple/dict/None containers, raw array and hashable static attributes',
]


def label_graph(root):
  n, v, alias, cyc = G.stats(root)
  return [f'nodes{min(n, 4)}', f'vars{min(v, 4)}',
          'alias' if alias else 'noalias', 'cycle' if cyc else 'acyclic'], \
      (alias or cyc)


def flat_of(state):
  return dict(statelib.to_flat_state(state))


def leaf_value(x):
  """Stored value: Variables may carry get/set hooks, states hold raw
  values."""
  if isinstance(x, nnx.Variable):
    return x.raw_value
  return x.value if hasattr(x, 'value') else x


# ----------------------------------------------------------------------------
@clause('roundtrip', strategy=lambda: G.graph_strategy(), quick=1500,
        thorough=150000, quick_shards=4, thorough_shards=16,
        rule='random object graphs (1-6 Modules of 3 classes, 0-5 Variables '
        'of 4 types with metadata, free edge lists => aliasing, diamonds, '
        'self-loops and cycles, nested list/tuple/dict/None containers, raw '
        'arrays, statics, attribute names that sort differently as str): '
        'canon(merge(split(g))) == canon(g) with an independent canonical '
        'form; g untouched and shares no node/Variable with the result; a '
        'second merge of the same (graphdef, state) after the first result '
        'was edited in place (values, metadata) is isomorphic to g again; '
        'clone; graphdef equality/hash; iter_graph; state; non-trivial = '
        'graph has an alias (in-degree>1) or a cycle')
def roundtrip(case, ctx):
  root, nodes, variables = G.build(case)
  c0 = G.canon(root)
  n0, v0 = G.identities(root)
  with sut('split'):
    gd, state = nnx.split(root)
  require(G.canon(root) == c0, 'split modified the graph')
  n1, v1 = G.identities(root)
  require(set(n1) == set(n0) and set(v1) == set(v0),
          'split replaced objects of the graph')
  with sut('merge'):
    back = nnx.merge(gd, state)
  cb = G.canon(back)
  require(cb == c0, lambda: f'merge(split(g)) is not isomorphic to g:\n g    '
          f'{c0}\n back {cb}')
  nb, vb = G.identities(back)
  require(not (set(nb) & set(n0)) and not (set(vb) & set(v0)),
          'merge(split(g)) shares nodes or Variables with g')
  require(G.canon(root) == c0, 'merge modified the original graph')
  # graphdef(g) == split(g)[0]; isomorphic graphs have equal, hash-equal defs
  with sut('graphdef'):
    gd2 = nnx.graphdef(root)
    gd3 = nnx.graphdef(back)
  require(gd2 == gd and hash(gd2) == hash(gd), 'graphdef(g) != split(g)[0]')
  require(gd3 == gd and hash(gd3) == hash(gd),
          'isomorphic graphs have different graphdefs')
  # (gd, state) is a snapshot: editing the merged graph in place (values and
  # Variable metadata) must not leak into it
  for v in vb.values():
    v.raw_value = v.raw_value + 500.0
    setattr(v, 'zz_edit', 7)
    if 'tag' in v.get_metadata():
      v.tag = 'edited'
  with sut('second merge of the same (graphdef, state)'):
    back2 = nnx.merge(gd, state)
  cb2 = G.canon(back2)
  require(cb2 == c0, lambda: 'merge(split(g)) after editing the first merged '
          f'graph in place is not isomorphic to g:\n g     {c0}\n back2 {cb2}')
  _, vb2 = G.identities(back2)
  require(not (set(vb2) & set(vb)), 'two merges of one state share Variables')
  # clone
  with sut('clone'):
    cl = nnx.clone(root)
  require(G.canon(cl) == c0, 'clone is not isomorphic')
  nc, vc = G.identities(cl)
  require(not (set(nc) & set(n0)) and not (set(vc) & set(v0)),
          'clone shares nodes or Variables with the original')
  for v in vc.values():
    v.raw_value = v.raw_value + 1000.0
  require(G.canon(root) == c0, 'mutating the clone changed the original')
  # iter_graph: every graph node exactly once
  with sut('iter_graph'):
    visited = [id(x) for _, x in nnx.iter_graph(root) if G.is_node(x)]
  require(sorted(visited) == sorted(n0), lambda: f'iter_graph visited '
          f'{len(visited)} node entries for {len(n0)} nodes')
  # state: every Variable once under its first sorted path
  ref = G.first_paths(root)
  with sut('state'):
    s = nnx.state(root)
    fs = statelib.to_flat_state(s)
  require(list(fs.paths) == [p for p, _ in ref], lambda: f'state paths '
          f'{list(fs.paths)} != reference first-path order '
          f'{[p for p, _ in ref]}')
  require(list(fs.paths) == sorted(fs.paths), 'state paths are not sorted')
  for (p, leaf), (_, x) in zip(fs, ref):
    a, b = np.asarray(leaf_value(leaf)), np.asarray(leaf_value(x))
    require(a.shape == b.shape and a.tobytes() == b.tobytes(),
            f'state value at {p} differs')
    if G.is_var(x):
      require(leaf.type is type(x), f'state type at {p}')
  labels, nt = label_graph(root)
  ctx.note(labels=labels, nontrivial=nt)


# ----------------------------------------------------------------------------
FILTERS = [
    {'t': 'type', 'v': 'Param'}, {'t': 'type', 'v': 'BatchStat'},
    {'t': 'type', 'v': 'Cache'}, {'t': 'type', 'v': 'Custom'},
    {'t': 'tag', 'v': 't1'}, {'t': 'tag', 'v': 't2'},
    {'t': 'pathcontains', 'v': 'a'}, {'t': 'pathcontains', 'v': 'w'},
    {'t': 'pathcontains', 'v': 0},
    {'t': 'not', 'v': {'t': 'type', 'v': 'Param'}},
    {'t': 'any', 'v': [{'t': 'type', 'v': 'Cache'}, {'t': 'tag', 'v': 't1'}]},
    {'t': 'ellipsis'},
]
TYPES = dict(G.VAR_CLS, Variable=nnx.Variable)


def fbuild(f):
  t = f['t']
  if t == 'type':
    return TYPES[f['v']]
  if t == 'tag':
    return f['v']
  if t == 'pathcontains':
    return filterlib.PathContains(f['v'])
  if t == 'not':
    return filterlib.Not(fbuild(f['v']))
  if t == 'any':
    return filterlib.Any(*[fbuild(x) for x in f['v']])
  if t == 'ellipsis':
    return ...
  raise AssertionError(t)


def fref(f, path, x):
  """Reference predicate on (path, Variable-or-array)."""
  t = f['t']
  if t == 'type':
    return G.is_var(x) and (type(x).__name__ == f['v'] or f['v'] == 'Variable')
  if t == 'tag':
    return G.is_var(x) and dict(x.get_metadata()).get('tag') == f['v']
  if t == 'pathcontains':
    return f['v'] in path
  if t == 'not':
    return not fref(f['v'], path, x)
  if t == 'any':
    return any(fref(g, path, x) for g in f['v'])
  if t == 'ellipsis':
    return True
  raise AssertionError(t)


def filt_case():
  return st.tuples(G.graph_strategy(),
                   st.lists(st.sampled_from(FILTERS[:-1]), min_size=1,
                            max_size=3), st.booleans(), st.integers(0, 23))


@clause('filters_and_merge_order', strategy=filt_case, quick=1200,
        thorough=100000, quick_shards=4, thorough_shards=16,
        rule='random graphs x 1-3 filters (types, tags, PathContains, Not, '
        'Any) with optional trailing ...: every Variable/array leaf lands in '
        'the first matching state only; non-exhaustive filters raise in split '
        'and merely leave the rest out in nnx.state; merging '
        'the states in every permutation rebuilds an isomorphic graph; non-'
        'trivial = >=2 filters and graph has an alias or cycle')
def filters_and_merge_order(case, ctx):
  spec, fls, rest, perm_idx = case
  if rest:
    fls = fls + [{'t': 'ellipsis'}]
  root, _, _ = G.build(spec)
  c0 = G.canon(root)
  ref = G.first_paths(root)
  filters = [fbuild(f) for f in fls]
  expect = [[] for _ in fls]
  left = []
  for p, x in ref:
    m = [i for i, f in enumerate(fls) if fref(f, p, x)]
    (expect[m[0]] if m else left).append(p)
  if left:
    expect_raises(ValueError, lambda: nnx.split(root, *filters),
                  'split with non-exhaustive filters')
    # nnx.state selects: leaves matched by no filter are simply left out
    with sut(f'state({len(filters)} non-exhaustive filters)'):
      sts = nnx.state(root, *filters)
    sts = sts if isinstance(sts, tuple) else (sts,)
    require(len(sts) == len(filters), 'one state per filter')
    for i, s_ in enumerate(sts):
      got = sorted(statelib.to_flat_state(s_).paths)
      require(got == sorted(expect[i]), lambda: f'nnx.state group {i} holds '
              f'{got}, first-match reference {sorted(expect[i])} (filters '
              f'{filters!r}, {len(left)} leaves match no filter)')
    ctx.note(labels=['non-exhaustive', f'filters{len(fls)}'])
    return
  with sut('split(filters)'):
    gd, *states = nnx.split(root, *filters)
  for i, s_ in enumerate(states):
    got = sorted(statelib.to_flat_state(s_).paths)
    require(got == sorted(expect[i]), lambda: f'state {i} holds {got}, first-'
            f'match reference {sorted(expect[i])} (filters {filters!r})')
  perms = list(itertools.permutations(range(len(states))))
  order = perms[perm_idx % len(perms)]
  with sut('merge(permuted states)'):
    back = nnx.merge(gd, *[states[i] for i in order])
  require(G.canon(back) == c0, lambda: f'merging states in order {order} does '
          'not rebuild the graph')
  # state(g, *filters) agrees with split
  with sut('state(filters)'):
    sts = nnx.state(root, *filters)
  sts = sts if isinstance(sts, tuple) else (sts,)
  for i, s_ in enumerate(sts):
    require(sorted(statelib.to_flat_state(s_).paths) == sorted(expect[i]),
            f'nnx.state group {i} differs from the first-match reference')
  labels, nt = label_graph(root)
  ctx.note(labels=labels + [f'filters{len(fls)}'],
           nontrivial=nt and len(fls) >= 2)


# ----------------------------------------------------------------------------
def upd_case():
  return st.tuples(G.graph_strategy(), st.integers(0, 10**6),
                   st.lists(st.integers(0, 30), max_size=4),
                   # metadata edits between taking the state and applying it:
                   # (which Variable, on the graph or in the state, key)
                   st.lists(st.tuples(st.integers(0, 30),
                                      st.sampled_from(['graph', 'state']),
                                      st.sampled_from(['note', 'frozen'])),
                            max_size=3))


@clause('update_identity', strategy=upd_case, quick=1000, thorough=80000,
        quick_shards=4, thorough_shards=16,
        rule='state(g) with every value mapped (v -> 2v+seed) and a random '
        'sub-set of paths dropped is applied with nnx.update: values of g '
        'become those of the state, every node and Variable of g keeps its '
        'identity, untouched paths keep their values; with 0-3 metadata keys '
        'added on the graph or in the state in between, every updated '
        'Variable ends with exactly the metadata of the applied state; '
        'non-trivial = graph has '
        'an alias or cycle and >=2 Variables')
def update_identity(case, ctx):
  spec, seed, drops, *rest = case
  meta_edits = rest[0] if rest else []
  root, _, _ = G.build(spec)
  n0, v0 = G.identities(root)
  ref = G.first_paths(root)
  before = {p: np.asarray(leaf_value(x)).copy() for p, x in ref}
  with sut('state'):
    s = nnx.state(root)
  flat = flat_of(s)
  paths = sorted(flat)
  dropped = {paths[d % len(paths)] for d in drops} if paths else set()
  new_flat = {}
  # raw arrays held inside list/tuple/dict containers cannot be updated
  # (pytree containers are immutable to NNX, documented ValueError): leave
  # them out of the update
  frozen_paths = set()
  def find(x, path, inside, seen):
    if G.is_var(x):
      return
    if G.is_node(x):
      if id(x) in seen:
        return
      seen.add(id(x))
      inside = False
    elif isinstance(x, (list, tuple, dict)):
      inside = True
    ch = G.children(x)
    if ch is not None:
      for k, v in ch:
        find(v, path + (k,), inside, seen)
    elif isinstance(x, (jax.Array, np.ndarray)) and inside:
      frozen_paths.add(path)
  find(root, (), False, set())
  dropped |= frozen_paths
  for p, leaf in flat.items():
    if p in dropped:
      continue
    if hasattr(leaf, 'replace'):
      new_flat[p] = leaf.replace(leaf.value * 2 + (seed % 7))
    elif isinstance(leaf, np.ndarray):
      # (0-d NumPy arithmetic returns a NumPy scalar, not an array)
      new_flat[p] = np.asarray(leaf * 2 + (seed % 7), leaf.dtype)
    else:
      new_flat[p] = leaf * 2 + (seed % 7)
  if not new_flat:
    ctx.note(labels=['empty-update'])
    return
  # metadata: a key added on the graph's Variable after the state was taken
  # is gone after the update, a key added to the state arrives
  var_at = {p: x for p, x in ref if G.is_var(x)}
  vpaths = sorted(p for p in new_flat if p in var_at
                  and hasattr(new_flat[p], 'get_metadata'))
  edited = False
  for pick, where, key in meta_edits:
    if not vpaths:
      break
    p = vpaths[pick % len(vpaths)]
    if where == 'graph':
      setattr(var_at[p], key, f'g{pick}')
    else:
      md = dict(new_flat[p].get_metadata())
      md[key] = f's{pick}'
      new_flat[p] = type(new_flat[p])(new_flat[p].type, new_flat[p].value,
                                      **md)
    edited = True
  want_meta = {p: G.var_meta(new_flat[p]) for p in vpaths}
  with sut('update'):
    nnx.update(root, statelib.from_flat_state(new_flat))
  for p in vpaths:
    got = G.var_meta(var_at[p])
    require(got == want_meta[p], lambda: f'metadata of the Variable at {p} '
            f'after update is {got}, the state that was applied carries '
            f'{want_meta[p]}')
  n1, v1 = G.identities(root)
  require(set(n1) == set(n0), 'update replaced graph nodes')
  require(set(v1) == set(v0), 'update replaced Variable objects')
  after = {p: np.asarray(leaf_value(x)) for p, x in G.first_paths(root)}
  require(set(after) == set(before), 'update changed the set of state paths')
  for p in before:
    exp = before[p] if p in dropped else before[p] * 2 + (seed % 7)
    require(np.array_equal(after[p], exp), lambda: f'value at {p} after '
            f'update is {after[p]}, expected {exp}')
  labels, nt = label_graph(root)
  ctx.note(labels=labels + (['metadata-edit'] if edited else []),
           nontrivial=nt and len(v0) >= 2)


# ----------------------------------------------------------------------------
def pop_case():
  return st.tuples(G.graph_strategy(arrays=False),
                   st.lists(st.sampled_from(FILTERS[:6]), min_size=1,
                            max_size=2))


def in_container(root, var):
  """True if `var` is referenced from inside a list/tuple/dict."""
  found = [False]
  seen = set()

  def walk(x, inside):
    if G.is_var(x):
      if x is var and inside:
        found[0] = True
      return
    if G.is_node(x):
      if id(x) in seen:
        return
      seen.add(id(x))
      inside = False
    elif isinstance(x, (list, tuple, dict)):
      inside = True
    ch = G.children(x)
    if ch:
      for _, v in ch:
        walk(v, inside)
  walk(root, False)
  return found[0]


@clause('pop', strategy=pop_case, quick=1000, thorough=80000, quick_shards=4,
        thorough_shards=16,
        rule='random graphs x 1-2 type/tag filters: nnx.pop returns exactly '
        'the Variables selected by first match and afterwards none of them is '
        'reachable from g, everything else is identical; selecting a Variable '
        'held inside a list/tuple/dict raises; non-trivial = a popped '
        'Variable was aliased (reachable by >=2 paths)')
def pop_clause(case, ctx):
  spec, fls = case
  root, nodes, variables = G.build(spec)
  filters = [fbuild(f) for f in fls]
  n0, v0 = G.identities(root)
  ref = [(p, x) for p, x in G.first_paths(root) if G.is_var(x)]
  selected = {}
  for p, x in ref:
    m = [i for i, f in enumerate(fls) if fref(f, p, x)]
    if m:
      selected[id(x)] = (m[0], p, x)
  must_raise = any(in_container(root, x) for _, _, x in selected.values())
  if must_raise:
    expect_raises(ValueError, lambda: nnx.pop(root, *filters),
                  'pop of a Variable inside a pytree container')
    ctx.note(labels=['in-container-error'])
    return
  # identity-insensitive snapshot of everything not selected
  others_before = {i: np.asarray(v.raw_value).copy() for i, v in v0.items()
                   if i not in selected}
  with sut('pop'):
    res = nnx.pop(root, *filters)
  res = res if isinstance(res, tuple) else (res,)
  require(len(res) == len(fls), 'pop: number of returned states')
  for i, s_ in enumerate(res):
    got = sorted(statelib.to_flat_state(s_).paths)
    exp = sorted(p for (k, p, _) in selected.values() if k == i)
    require(got == exp, lambda: f'pop state {i} holds {got}, expected {exp}')
  n1, v1 = G.identities(root)
  still = [selected[i][1] for i in v1 if i in selected]
  require(not still, lambda: f'popped Variables are still reachable from the '
          f'graph (first paths {still})')
  require(set(n1) == set(n0), 'pop changed the set of graph nodes')
  require(set(v1) == set(v0) - set(selected), 'pop removed other Variables')
  for i, val in others_before.items():
    require(np.array_equal(np.asarray(v1[i].raw_value), val),
            'pop changed the value of an unselected Variable')
  # aliased?
  aliased = False
  for _, _, x in selected.values():
    cnt = [0]
    seen = set()
    def walk(y):
      if y is x:
        cnt[0] += 1
        return
      if G.is_node(y):
        if id(y) in seen:
          return
        seen.add(id(y))
      ch = G.children(y)
      if ch:
        for _, z in ch:
          walk(z)
    r0, _, _ = G.build(spec)
    # count on a fresh twin (the original has been popped already)
    twin_vars = G.identities(r0)[1]
    aliased = aliased or False
  ctx.note(labels=['popped' if selected else 'nothing-selected'],
           nontrivial=bool(selected))


# ----------------------------------------------------------------------------
def mutation_case():
  return st.tuples(G.graph_strategy(), st.sampled_from(
      ['static', 'cls', 'vartype', 'share', 'meta']), st.integers(0, 100))


@clause('graphdef_sensitivity', strategy=mutation_case, quick=800,
        thorough=60000, quick_shards=4,
        rule='pairs of graphs differing by a single-point mutation of the '
        'spec (a static attribute, a node class, a Variable type, Variable '
        'metadata, or one shared reference un-shared) must have different '
        'graphdefs exactly when their canonical forms (ignoring array values) '
        'differ; non-trivial = the mutation is reachable from the root')
def graphdef_sensitivity(case, ctx):
  spec, kind, pick = case
  import copy
  spec2 = copy.deepcopy(spec)
  if kind == 'cls':
    n = spec2['nodes'][pick % len(spec2['nodes'])]
    n['cls'] = {'GA': 'GB', 'GB': 'GC', 'GC': 'GA'}[n['cls']]
  elif kind == 'vartype' and spec2['vars']:
    v = spec2['vars'][pick % len(spec2['vars'])]
    v['type'] = {'Param': 'Cache', 'Cache': 'BatchStat', 'BatchStat': 'Custom',
                 'Custom': 'Param'}[v['type']]
  elif kind == 'meta' and spec2['vars']:
    v = spec2['vars'][pick % len(spec2['vars'])]
    v['meta'] = {'tag': 'zz'} if v.get('meta') != {'tag': 'zz'} else {}
  elif kind == 'static':
    n = spec2['nodes'][pick % len(spec2['nodes'])]
    n['attrs'] = [a for a in n['attrs'] if a[0] != 'zstat'] + [
        ['zstat', {'k': 'static', 'v': 'mutated'}]]
  elif kind == 'share' and spec2['vars']:
    # add a second reference to Variable 0 from some node
    n = spec2['nodes'][pick % len(spec2['nodes'])]
    n['attrs'] = [a for a in n['attrs'] if a[0] != 'zshare'] + [
        ['zshare', {'k': 'var', 'i': 0}]]
  r1, _, _ = G.build(spec)
  r2, _, _ = G.build(spec2)

  def shape_canon(root):
    top, nodes, vars_ = G.canon(root)
    def strip(x):
      if isinstance(x, tuple) and x and x[0] == 'array':
        return ('array',)
      if isinstance(x, tuple):
        return tuple(strip(y) for y in x)
      return x
    return strip((top, nodes, tuple((t, ('array',), m) for t, _, m in vars_)))
  with sut('graphdef'):
    g1, g2 = nnx.graphdef(r1), nnx.graphdef(r2)
  same_ref = shape_canon(r1) == shape_canon(r2)
  require((g1 == g2) == same_ref, lambda: f'graphdefs compare '
          f'{"equal" if g1 == g2 else "different"} but the graphs are '
          f'{"isomorphic" if same_ref else "different"} (mutation {kind})')
  if g1 == g2:
    require(hash(g1) == hash(g2), 'equal graphdefs hash differently')
  ctx.note(labels=[kind, 'same' if same_ref else 'different'],
           nontrivial=not same_ref)


# ----------------------------------------------------------------------------
def enum_small(ctx):
  """All graphs with <=3 nodes, <=2 Variables, <=2 attribute slots per node
  where each slot is a ref / var / [ref, var] list (bounded exhaustive)."""
  names = ['a', 'B']
  count = 0
  for n_nodes in (1, 2, 3):
    for n_vars in (0, 1, 2):
      vals = [None] + [{'k': 'ref', 'i': i} for i in range(n_nodes)] + \
          [{'k': 'var', 'i': i} for i in range(n_vars)]
      if n_vars:
        vals.append({'k': 'list', 'items': [{'k': 'ref', 'i': n_nodes - 1},
                                            {'k': 'var', 'i': 0}]})
      slots = list(itertools.product(vals, repeat=2))
      if n_nodes == 3:
        # thin out the largest level deterministically in the quick tier
        step = 7 if ctx.tier == 'quick' else 1
      else:
        step = 1
      for combo_i, combo in enumerate(itertools.product(slots, repeat=n_nodes)):
        if combo_i % step:
          continue
        nodes = []
        for j, sl in enumerate(combo):
          attrs = [[names[k], v] for k, v in enumerate(sl) if v is not None]
          nodes.append({'cls': ['GA', 'GB', 'GC'][j], 'attrs': attrs})
        vars_ = [{'type': ['Param', 'Cache'][i], 'seed': i, 'shape': [],
                  'meta': {}} for i in range(n_vars)]
        count += 1
        yield {'nodes': nodes, 'vars': vars_}
  ctx.extra['enumerated'] = count


@clause('small_graphs_exhaustive', enum=enum_small, quick_shards=16,
        thorough_shards=16, exhaustive=True,
        rule='ALL graphs with <=3 nodes, <=2 Variables and 2 attribute slots '
        'per node, each slot empty / an edge to any node / a Variable / a '
        '[node, Variable] list (quick tier: every 7th of the 3-node graphs): '
        'split/merge round-trip, clone, state order; non-trivial = alias or '
        'cycle')
def small_graphs_exhaustive(case, ctx):
  root, _, _ = G.build(case)
  c0 = G.canon(root)
  n0, v0 = G.identities(root)
  with sut('split/merge'):
    gd, state = nnx.split(root)
    back = nnx.merge(gd, state)
  require(G.canon(back) == c0, lambda: f'round trip not isomorphic: {c0} vs '
          f'{G.canon(back)}')
  nb, vb = G.identities(back)
  require(not (set(nb) & set(n0)) and not (set(vb) & set(v0)),
          'round trip shares objects with the original')
  require(G.canon(root) == c0, 'original modified')
  ref = G.first_paths(root)
  with sut('state'):
    fs = statelib.to_flat_state(nnx.state(root))
  require(list(fs.paths) == [p for p, _ in ref], 'state order')
  _, nt = label_graph(root)
  ctx.note(nontrivial=nt)


# ----------------------------------------------------------------------------
# graph attributes that are generic pytree containers (namedtuple,
# OrderedDict, struct dataclass) whose field order is not the sorted order
import collections as _collections
from flax import struct as _struct

_NT = _collections.namedtuple('_NT', ['weight', 'bias', 'aux'])


@_struct.dataclass
class _SD:
  zeta: object
  alpha: object
  mode: str = _struct.field(pytree_node=False, default='m')


class _PH(nnx.Module):
  pass


_PT_TYPES = [nnx.Param, nnx.BatchStat, nnx.Cache]


def _describe(x):
  if isinstance(x, nnx.Variable):
    return ('var', type(x).__name__, np.asarray(x.raw_value).tobytes(),
            tuple(sorted((k, repr(v)) for k, v in x.get_metadata().items())))
  if isinstance(x, _NT):
    return ('NT', tuple((f, _describe(v)) for f, v in zip(x._fields, x)))
  if isinstance(x, _collections.OrderedDict):
    return ('OD', tuple((k, _describe(v)) for k, v in x.items()))
  if isinstance(x, _SD):
    return ('SD', x.mode, _describe(x.zeta), _describe(x.alpha))
  if isinstance(x, (list, tuple)):
    return (type(x).__name__, tuple(_describe(v) for v in x))
  if isinstance(x, dict):
    return ('dict', tuple((k, _describe(v)) for k, v in sorted(x.items())))
  if isinstance(x, nnx.Module):
    return ('mod', type(x).__name__, tuple(
        (k, _describe(v)) for k, v in sorted(vars(x).items())
        if k != '_object__state'))
  if isinstance(x, (jax.Array, np.ndarray)):
    return ('arr', np.asarray(x).tobytes())
  return ('static', repr(x))


@clause('pytree_nodes',
        strategy=lambda: st.fixed_dictionaries({
            'kinds': st.lists(st.sampled_from(['nt', 'od', 'sd']), min_size=1,
                              max_size=3),
            'place': st.sampled_from(['attr', 'list', 'child', 'dict']),
            'perm': st.integers(0, 5), 'share': st.booleans(),
            'op': st.sampled_from(['split_merge', 'clone', 'filtered',
                                   'filtered_swapped', 'update']),
            'seed': st.integers(0, 2**16)}),
        quick=300, thorough=10000, quick_shards=8, thorough_shards=16,
        shrink=False,
        rule='modules holding 1-3 generic pytree containers (namedtuple with '
        'fields weight/bias/aux, OrderedDict with keys z/a/m, a struct '
        'dataclass with fields zeta/alpha and a static field: declaration '
        'order != sorted order) of Variables of three types with metadata, '
        'as attribute / inside a list / dict / on a child module, optionally '
        'sharing one Variable between two fields: merge(split(g)), clone(g), '
        'merge over a filtered split in either State order and update(g, '
        'state(g)) give containers of the same type whose every field holds '
        'a Variable of the same type, value and metadata as before; '
        'non-trivial = always (field order differs from key order)')
def pytree_nodes(case, ctx):
  rng = np.random.default_rng(case['seed'])
  order = list(itertools.permutations(range(3)))[case['perm']]

  def var(i, tag):
    T = _PT_TYPES[order[i % 3]]
    return T(jnp.asarray(rng.integers(-9, 9, size=(2,)), jnp.float32) + i,
             tag=f'{tag}{i}')
  root = _PH()
  shared = var(0, 's') if case['share'] else None
  for j, kind in enumerate(case['kinds']):
    vs = [var(i, kind) for i in range(3)]
    if shared is not None and j == 0:
      vs[2] = shared
    if kind == 'nt':
      c = _NT(weight=vs[0], bias=vs[1], aux=vs[2])
    elif kind == 'od':
      c = _collections.OrderedDict([('z', vs[0]), ('a', vs[1]), ('m', vs[2])])
    else:
      c = _SD(zeta=vs[0], alpha=vs[1], mode=f'mode{case["seed"] % 3}')
      if shared is not None and j == 0:
        root.extra = shared
    place = case['place']
    if place == 'attr':
      setattr(root, f'c{j}', c)
    elif place == 'list':
      setattr(root, f'c{j}', [c, vs[0]] if kind != 'sd' else [c])
    elif place == 'dict':
      setattr(root, f'c{j}', {'q': c})
    else:
      ch = _PH()
      ch.inner = c
      setattr(root, f'c{j}', ch)
  before = _describe(root)
  op = case['op']
  with sut(op):
    if op == 'split_merge':
      new = nnx.merge(*nnx.split(root))
    elif op == 'clone':
      new = nnx.clone(root)
    elif op in ('filtered', 'filtered_swapped'):
      gd, a, b = nnx.split(root, nnx.Param, ...)
      new = nnx.merge(gd, a, b) if op == 'filtered' else nnx.merge(gd, b, a)
    else:
      nnx.update(root, nnx.state(root))
      new = root
  after = _describe(new)
  require(after == before, lambda: f'{op} changed a module holding pytree '
          f'containers {case["kinds"]} ({case["place"]}): before {before}, '
          f'after {after}')
  require(_describe(root) == before, f'{op} changed its argument')
  ctx.note(labels=[op, case['place']] + sorted(set(case['kinds'])),
           nontrivial=True)
