"""C06 — lifted scan / vmap equal the explicit loop / per-example stack."""
from __future__ import annotations

from typing import Any

import numpy as np
from hypothesis import strategies as st

from harness.core import begin, clause, Violation, sut, require, expect_raises
from harness import linen_dsl as L

import jax
import jax.numpy as jnp
import flax.linen as nn
from flax.core import unfreeze
from flax.typing import In, Out

begin('C06')

ASSUMPTIONS = [
    'the reference executor is a Python for-loop (reversed if requested) / a '
    'per-index loop that slices axis collections with np.take, shares '
    'broadcast ones, threads carry ones and calls the *unlifted* body module',
    'RNG clause checks the stated relation only: split streams give pairwise '
    'different keys per iteration/index, unsplit streams give identical keys',
    'negative axes are excluded (C19 known finding); axis positions are '
    'bounded by the smallest variable rank of the collection',
    'float32, compared with rtol=atol=2e-5',
]

STATE = ['batch_stats', 'counters']


def _cell_body(self, c, x, b=None):
    h = c + x
    if b is not None:
      h = h + b
    inner = L.make_module(L.thaw(self.spec), self.dim, name='inner')
    h = inner(h)
    if self.has_rng('dropout'):
      kd = jax.random.key_data(self.make_rng('dropout')).astype(jnp.uint32)
    else:
      kd = jnp.zeros((2,), jnp.uint32)
    # outputs of different ranks (vector, matrix, key data)
    return h, (h * 2.0 + 1.0, kd, jnp.outer(h, h) if h.ndim == 1 else h[..., None])


class Cell(nn.Module):
  """(carry, x[, b]) -> (carry, (y, key_data)) around a DSL program."""
  spec: Any = None
  dim: int = 2

  @nn.compact
  def __call__(self, c, x, b=None):
    return _cell_body(self, c, x, b)


def _vcell_body(self, x, b=None):
    h = x if b is None else x + b
    inner = L.make_module(L.thaw(self.spec), self.dim, name='inner')
    h = inner(h)
    if self.sow_acts:
      # written inside the mapped function only ('acts' is lifted with an
      # Out(axis) marker: output-only collection)
      self.sow('acts', 'h', h * 3.0)
    if self.has_rng('dropout'):
      kd = jax.random.key_data(self.make_rng('dropout')).astype(jnp.uint32)
    else:
      kd = jnp.zeros((2,), jnp.uint32)
    return h * 2.0 + 1.0, kd


class VCell(nn.Module):
  """x -> (y, key_data) for vmap."""
  spec: Any = None
  dim: int = 2
  sow_acts: bool = False

  @nn.compact
  def __call__(self, x, b=None):
    return _vcell_body(self, x, b)


_METHOD_FORMS = {}


def method_form(transform, body, kw):
  """The same cell with the transform applied as a *method decorator*
  (functools.partial(nn.scan, ...) above @nn.compact) instead of to the
  class."""
  import functools
  key = (transform.__name__, body.__name__, repr(sorted(kw.items(), key=str)))
  if key not in _METHOD_FORMS:
    if body is _cell_body:
      class MCell(nn.Module):
        spec: Any = None
        dim: int = 2

        @functools.partial(transform, **kw)
        @nn.compact
        def __call__(self, c, x, b=None):
          return _cell_body(self, c, x, b)
    else:
      class MCell(nn.Module):
        spec: Any = None
        dim: int = 2
        sow_acts: bool = False

        @functools.partial(transform, **kw)
        @nn.compact
        def __call__(self, x, b=None):
          return _vcell_body(self, x, b)
    _METHOD_FORMS[key] = MCell
  return _METHOD_FORMS[key]


def body_prog():
  return L.prog_strategy(allow=('counter', 'stat', 'tanh'), max_depth=1,
                         max_ops=4, styles=('compact',)).map(fix_cols)


def fix_cols(prog):
  """counters live in 'counters', running stats in 'batch_stats'."""
  ops = []
  for op in prog['ops']:
    op = dict(op)
    if op['op'] == 'counter':
      op['col'] = 'counters'
    elif op['op'] == 'stat':
      op['col'] = 'batch_stats'
    elif op['op'] == 'sub':
      op['prog'] = fix_cols(op['prog'])
    elif op['op'] == 'param' and not op['shape']:
      op['shape'] = [1]
    ops.append(op)
  return L.dedupe_names(dict(prog, ops=ops))


def cols_of(prog):
  cols = set()
  if L.uses(prog, ('dense', 'param')):
    cols.add('params')
  if L.uses(prog, ('counter',)):
    cols.add('counters')
  if L.uses(prog, ('stat',)):
    cols.add('batch_stats')
  return cols


def take(tree, i, axis):
  return jax.tree_util.tree_map(lambda a: np.take(np.asarray(a), i, axis=axis),
                                tree)


def stack(trees, axis):
  return jax.tree_util.tree_map(lambda *a: np.stack([np.asarray(x) for x in a],
                                                    axis=axis), *trees)


def close(a, b, tol=2e-5):
  la, lb = jax.tree_util.tree_leaves(a), jax.tree_util.tree_leaves(b)
  if len(la) != len(lb):
    return False
  for x, y in zip(la, lb):
    x, y = np.asarray(x), np.asarray(y)
    if x.shape != y.shape or not np.allclose(x, y, rtol=tol, atol=tol):
      return False
  return True


def flat_close(a, b, tol=2e-5):
  fa, fb = L.flat(a), L.flat(b)
  return set(fa) == set(fb) and all(close(fa[k], fb[k], tol) for k in fa)


def scan_case():
  # sound domain (documented): broadcast variables must not depend on the
  # loop body, so mutable state is either stacked per iteration or carried;
  # carried collections cannot be created inside the loop
  role = st.sampled_from(['axis0', 'carry'])
  return st.fixed_dictionaries({
      'prog': body_prog(), 'dim': st.integers(1, 3),
      'length': st.integers(1, 4), 'reverse': st.booleans(),
      'unroll': st.sampled_from([1, 2, 9]),
      'params_role': st.sampled_from(['axis0', 'axis1', 'axis-1',
                                      'broadcast']),
      'stats_role': role, 'counters_role': role,
      'in_axis': st.sampled_from([0, 1]),
      'out_axis': st.sampled_from([0, 1, -1]),
      'use_b': st.booleans(),
      'split_params': st.booleans(), 'split_dropout': st.booleans(),
      'mutable': st.lists(st.sampled_from(STATE), max_size=2, unique=True),
      'seed': st.integers(0, 2**16), 'remat_scan': st.just(False),
      # nn.scan(Cell, ...) or @functools.partial(nn.scan, ...) on __call__
      'form': st.sampled_from(['class', 'class', 'method', 'class_methods']),
      # the documented fast path that skips the broadcast-constancy trace
      'cci': st.sampled_from([True, True, False]),
      # `length` given explicitly or inferred from the scanned input
      'infer_length': st.booleans(),
  })


def role_axis(role):
  # 'axis-1': unboxed values stacked on the last dimension (the C19 known
  # finding concerns the *names* of boxed variables, not plain values)
  return {'axis0': 0, 'axis1': 1, 'axis-1': -1}.get(role)


def build_scan(case, cols):
  roles = {'params': case['params_role'], 'batch_stats': case['stats_role'],
           'counters': case['counters_role']}
  # scalars (counters, running means) can only be stacked at axis 0
  if roles['batch_stats'] == 'axis1':
    roles['batch_stats'] = 'axis0'
  # an axis position is bounded by the smallest variable rank: biases and
  # [1]-shaped params have rank 1, so axis 1 is allowed for params
  variable_axes = {c: role_axis(r) for c, r in roles.items()
                   if role_axis(r) is not None and c in cols}
  broadcast = [c for c, r in roles.items() if r == 'broadcast' and c in cols]
  carry = [c for c, r in roles.items() if r == 'carry' and c in cols]
  return roles, variable_axes, broadcast, carry


@clause('scan_vs_loop', strategy=scan_case, quick=160, thorough=6000,
        quick_shards=16, thorough_shards=16, shrink=False,
        rule='generated loop-body programs (Dense/param/counter/running stat) '
        'x transform applied to the class or as a method decorator x role of each collection (axis 0/1, broadcast, carry) x length 1-4 x '
        'reverse x unroll {1,2,>length} x check_constancy_invariants on/off x in/out axis 0/1 x broadcast input x '
        'split_rngs per stream x outer mutable filter; init: axis collections '
        'have size `length` at the declared position, split params differ per '
        'slice and unsplit are identical; for stateless bodies the outputs of '
        'init equal apply on the returned variables; apply equals a Python loop over '
        'sliced variables calling the unlifted body (final carry, stacked '
        'outputs, every returned collection); per-iteration keys pairwise '
        'different iff the stream is split; non-trivial = >=2 distinct roles '
        'in use and length>=2, or axis != 0, or reverse')
def scan_vs_loop(case, ctx):
  prog, D, n = case['prog'], case['dim'], case['length']
  cols = cols_of(prog)
  roles, variable_axes, broadcast, carry = build_scan(case, cols)
  spec = L.freeze_json(prog)
  rng = np.random.default_rng(case['seed'])
  xs_base = rng.normal(size=(n, D)).astype(np.float32)
  xs = xs_base if case['in_axis'] == 0 else xs_base.T
  c0 = rng.normal(size=(D,)).astype(np.float32)
  b = rng.normal(size=(D,)).astype(np.float32) if case['use_b'] else None
  # broadcast params are initialised once outside the loop, so their rng
  # cannot be split per iteration (documented data-dependency error)
  split = {'params': case['split_params'] and roles['params'] != 'broadcast',
           'dropout': case['split_dropout']}
  in_axes = (case['in_axis'], nn.broadcast) if b is not None else \
      case['in_axis']
  form = case.get('form', 'class')
  with sut('nn.scan'):
    skw = dict(variable_axes=variable_axes,
               variable_broadcast=broadcast, variable_carry=carry,
               split_rngs=split, in_axes=in_axes,
               out_axes=case['out_axis'], length=n, reverse=case['reverse'],
               unroll=case['unroll'])
    # documented: only with the constancy check can broadcast collections be
    # produced (initialised) inside the loop
    if case.get('infer_length'):
      del skw['length']
    cci = case.get('cci', True) or bool(broadcast)
    if not cci:
      skw['check_constancy_invariants'] = False
    if form == 'class':
      SC = nn.scan(Cell, **skw)
    elif form == 'class_methods':
      SC = nn.scan(Cell, methods=['__call__'], **skw)
    else:
      SC = method_form(nn.scan, _cell_body, skw)
    scanned = SC(spec=spec, dim=D)
  plain = Cell(spec=spec, dim=D)
  args = (jnp.asarray(c0), jnp.asarray(xs)) + (
      (jnp.asarray(b),) if b is not None else ())
  keys = {'params': jax.random.key(case['seed']),
          'dropout': jax.random.key(case['seed'] + 1)}
  with sut('plain init'):
    Vp = unfreeze(plain.init(keys, jnp.asarray(c0), jnp.asarray(xs_base[0]),
                             *((jnp.asarray(b),) if b is not None else ())))
  if carry:
    # carried collections must exist before the loop: build the variables by
    # stacking per-iteration variations of the plain init along the axes
    V = {}
    for col in Vp:
      if col in variable_axes:
        k = variable_axes[col]
        V[col] = jax.tree_util.tree_map(
            lambda a, k=k: np.stack([np.asarray(a) * (1 + 0.25 * i) + (
                i if np.asarray(a).dtype.kind == 'i' else 0)
                                     for i in range(n)], axis=k).astype(
                                         np.asarray(a).dtype), Vp[col])
      else:
        V[col] = Vp[col]
    ctx.note(labels=['manual-variables'])
  else:
    with sut('scan init'):
      (c_i, (ys_i, kd_i, ym_i)), V = scanned.init_with_output(keys, *args)
    V = unfreeze(V)
    ctx.note(labels=['scan-init'])
    if cols <= {'params'}:
      # without state, the outputs of init are those of apply on the
      # variables init returns (broadcast ones included: created once, then
      # used by every iteration)
      with sut('scan apply(init variables)'):
        c_a, (ys_a, _, ym_a) = scanned.apply(
            V, *args, rngs={'dropout': keys['dropout']})
      require(close(c_i, c_a) and close(ys_i, ys_a) and close(ym_i, ym_a),
              lambda: 'the outputs init_with_output returns differ from '
              f'apply on the variables it returns (roles={roles}): carry '
              f'{np.asarray(c_i)} vs {np.asarray(c_a)}')
      ctx.note(labels=['init-output-vs-apply'])
  # --- init tree: plain tree with a length axis at the declared position
  fp, fv = L.flat(Vp), L.flat(V)
  require(set(fp) == set(fv), lambda: f'scan init tree {sorted(fv)} != plain '
          f'{sorted(fp)}')
  for p, leaf in fv.items():
    col = p[0]
    base_shape = np.shape(fp[p])
    if col in variable_axes:
      k = variable_axes[col]
      kk = k if k >= 0 else len(base_shape) + 1 + k
      exp = base_shape[:kk] + (n,) + base_shape[kk:]
      require(np.shape(leaf) == exp, lambda: f'{p}: shape {np.shape(leaf)}, '
              f'expected {exp} (axis {k}, length {n})')
      if col == 'params' and n >= 2 and p[-1] != 'bias' and not carry:
        slices = [np.take(np.asarray(leaf), i, axis=k) for i in range(n)]
        same = all(np.array_equal(slices[0], s) for s in slices[1:])
        if split['params']:
          require(not same, f'{p}: params rng is split but every slice was '
                  'initialised identically')
        else:
          require(same, f'{p}: params rng is not split but slices differ')
    else:
      require(np.shape(leaf) == base_shape, lambda: f'{p}: broadcast/carry '
              f'collection has shape {np.shape(leaf)}, plain {base_shape}')
  # --- apply vs Python loop
  mutable = [c for c in case['mutable'] if c in cols]
  # known finding C06:scan-carry-immutable (same root cause as C05's
  # while_loop finding): a carried collection that is immutable in the outer
  # apply makes the lifted scan raise TypeError; excluded by construction
  if any(c not in mutable for c in carry) and not getattr(ctx, 'probe_known',
                                                          False):
    ctx.exclude('C06:scan-carry-immutable')
    mutable = sorted(set(mutable) | set(carry))
  vin = {c: V[c] for c in V}
  with sut('scan apply'):
    r = scanned.apply(vin, *args, rngs={'dropout': keys['dropout']},
                      mutable=mutable if mutable else False)
  if mutable:
    (c_s, (ys_s, kd_s, ym_s)), upd_s = r
  else:
    (c_s, (ys_s, kd_s, ym_s)), upd_s = r, {}
  # reference
  c = c0
  ys = [None] * n
  yms = [None] * n
  carry_state = {col: vin[col] for col in carry}
  axis_out = {col: [None] * n for col in variable_axes}
  order = range(n - 1, -1, -1) if case['reverse'] else range(n)
  for i in order:
    v_i = {}
    for col in vin:
      if col in variable_axes:
        v_i[col] = take(vin[col], i, variable_axes[col])
      elif col in carry:
        v_i[col] = carry_state[col]
      else:
        v_i[col] = vin[col]
    # broadcast collections are read-only inside the loop
    mut_i = [col for col in mutable if col in variable_axes or col in carry]
    rr = plain.apply(v_i, jnp.asarray(c), jnp.asarray(xs_base[i]),
                     *((jnp.asarray(b),) if b is not None else ()),
                     rngs={'dropout': keys['dropout']},
                     mutable=mut_i if mut_i else False)
    if mut_i:
      (c, (y, _, ym)), upd = rr
      upd = unfreeze(upd)
    else:
      (c, (y, _, ym)), upd = rr, {}
    ys[i] = np.asarray(y)
    yms[i] = np.asarray(ym)
    for col in variable_axes:
      axis_out[col][i] = upd.get(col, v_i[col]) if col in mut_i else v_i[col]
    for col in carry:
      if col in upd:
        carry_state[col] = upd[col]
  ys_ref = np.stack(ys, axis=case['out_axis'])
  ym_ref = np.stack(yms, axis=case['out_axis'])
  require(close(ym_s, ym_ref), lambda: f'matrix-valued stacked output has '
          f'shape {np.shape(ym_s)}, the loop stacked along out_axis='
          f'{case["out_axis"]} gives {ym_ref.shape} (or values differ)')
  require(close(c_s, c), lambda: f'final carry {np.asarray(c_s)} != loop '
          f'{np.asarray(c)} (reverse={case["reverse"]}, roles={roles})')
  require(close(ys_s, ys_ref), lambda: f'stacked outputs differ from the '
          f'loop (out_axis={case["out_axis"]}, reverse={case["reverse"]}, '
          f'roles={roles}, unroll={case["unroll"]})')
  upd_s = unfreeze(upd_s) if upd_s else {}
  require(set(upd_s) == set(mutable), lambda: f'returned collections '
          f'{sorted(upd_s)} != mutable {sorted(mutable)}')
  for col in mutable:
    if col in variable_axes:
      exp = stack(axis_out[col], variable_axes[col])
    elif col in carry:
      exp = carry_state[col]
    else:
      exp = vin[col]
    require(flat_close({col: upd_s[col]}, {col: exp}), lambda: f'collection '
            f'{col} ({roles[col]}) after scan differs from the loop')
  # --- rng relation
  kd = np.asarray(kd_s)
  kd = np.moveaxis(kd, case['out_axis'], 0) if kd.ndim == 2 else kd
  if n >= 2:
    rows = {tuple(r_) for r_ in kd.reshape(n, -1)}
    if split['dropout']:
      require(len(rows) == n, lambda: f'dropout stream is split but only '
              f'{len(rows)} distinct keys in {n} iterations')
    else:
      require(len(rows) == 1, lambda: f'dropout stream is not split but '
              f'{len(rows)} distinct keys were seen')
  used_roles = {roles[c] for c in cols}
  ctx.note(labels=[f'n{n}', 'rev' if case['reverse'] else 'fwd',
                   f'form-{form}'] + ([] if cci else
                                      ['no-constancy-check']) + (
                                          ['inferred-length'] if case.get(
                                              'infer_length') else []) +
           sorted(f'{c}:{roles[c]}' for c in cols),
           nontrivial=(len(used_roles) >= 2 and n >= 2) or case['reverse']
           or any(a != 0 for a in variable_axes.values())
           or case['out_axis'] != 0)


# ----------------------------------------------------------------------------
class RCell(nn.Module):
  """carry -> carry around a DSL program (the body shape remat_scan takes)."""
  spec: Any = None
  dim: int = 2

  @nn.compact
  def __call__(self, h):
    inner = L.make_module(L.thaw(self.spec), self.dim, name='inner')
    return jnp.tanh(inner(h)) + 0.5 * h


def remat_scan_case():
  role = st.sampled_from(['axis0', 'carry', 'carry'])
  return st.fixed_dictionaries({
      'prog': body_prog(), 'dim': st.integers(1, 3),
      'lengths': st.lists(st.integers(1, 3), min_size=1, max_size=3),
      'params_role': st.sampled_from(['axis0', 'axis0', 'axis1',
                                      'broadcast']),
      'stats_role': role, 'counters_role': role,
      'split_params': st.booleans(),
      'default_axes': st.booleans(),
      'seed': st.integers(0, 2**16),
  })


def take_multi(tree, idx, axis):
  for i in idx:
    tree = take(tree, i, axis)
  return tree


@clause('remat_scan_vs_loop', strategy=remat_scan_case, quick=100,
        thorough=4000, quick_shards=16, thorough_shards=16, shrink=False,
        rule='nn.remat_scan over generated carry->carry bodies x lengths '
        '(1-3 nested levels of 1-3 iterations) x role of each collection '
        '(axis 0/1, broadcast, carry; or the default variable_axes={True:0}): '
        'axis collections hold prod(lengths) slices with the lengths inserted '
        'at the declared position, and apply equals the Python loop over all '
        'prod(lengths) iterations in row-major order calling the unlifted '
        'body (final carry, carried collections after every update, stacked '
        'axis collections); non-trivial = >=2 nesting levels with >=2 '
        'iterations in total and a carried or stacked mutable collection')
def remat_scan_vs_loop(case, ctx):
  prog, D = case['prog'], case['dim']
  lengths = tuple(case['lengths'])
  n = int(np.prod(lengths))
  cols = cols_of(prog)
  roles = {'params': case['params_role'], 'batch_stats': case['stats_role'],
           'counters': case['counters_role']}
  default_axes = case['default_axes']
  if default_axes:
    roles = {c: 'axis0' for c in roles}
  variable_axes = {c: role_axis(r) for c, r in roles.items()
                   if role_axis(r) is not None and c in cols}
  broadcast = [c for c, r in roles.items() if r == 'broadcast' and c in cols]
  carry = [c for c, r in roles.items() if r == 'carry' and c in cols]
  spec = L.freeze_json(prog)
  rng = np.random.default_rng(case['seed'])
  x0 = rng.normal(size=(D,)).astype(np.float32)
  split = case['split_params'] and roles['params'] != 'broadcast'
  kw = {}
  if not default_axes:
    kw = dict(variable_axes=variable_axes, variable_broadcast=broadcast,
              variable_carry=carry,
              split_rngs={'params': split})
  else:
    split = True
  with sut('nn.remat_scan'):
    RS = nn.remat_scan(RCell, lengths=lengths, **kw)
    scanned = RS(spec=spec, dim=D)
  plain = RCell(spec=spec, dim=D)
  keys = {'params': jax.random.key(case['seed'])}
  with sut('plain init'):
    Vp = unfreeze(plain.init(keys, jnp.asarray(x0)))

  def insert(shape, k):
    return shape[:k] + lengths + shape[k:]

  if carry:
    V = {}
    for col in Vp:
      if col in variable_axes:
        k = variable_axes[col]
        def mk(a, k=k):
          a = np.asarray(a)
          outs = [a * (1 + 0.25 * i) + (i if a.dtype.kind == 'i' else 0)
                  for i in range(n)]
          st_ = np.stack(outs, axis=0).reshape(lengths + a.shape)
          # move the `lengths` block to position k
          src = list(range(len(lengths)))
          dst = list(range(k, k + len(lengths)))
          return np.moveaxis(st_, src, dst).astype(a.dtype)
        V[col] = jax.tree_util.tree_map(mk, Vp[col])
      else:
        V[col] = Vp[col]
    ctx.note(labels=['manual-variables'])
  else:
    with sut('remat_scan init'):
      y_i, V = scanned.init_with_output(keys, jnp.asarray(x0))
    V = unfreeze(V)
    ctx.note(labels=['scan-init'])
  fp, fv = L.flat(Vp), L.flat(V)
  require(set(fp) == set(fv), lambda: f'remat_scan init tree {sorted(fv)} != '
          f'plain {sorted(fp)}')
  for p, leaf in fv.items():
    col = p[0]
    base_shape = np.shape(fp[p])
    if col in variable_axes:
      k = variable_axes[col]
      exp = insert(base_shape, k)
      require(np.shape(leaf) == exp, lambda: f'{p}: shape {np.shape(leaf)}, '
              f'expected {exp} (axis {k}, lengths {lengths})')
      if col == 'params' and n >= 2 and p[-1] != 'bias' and not carry:
        a = np.moveaxis(np.asarray(leaf), list(range(k, k + len(lengths))),
                        list(range(len(lengths)))).reshape((n,) + base_shape)
        same = all(np.array_equal(a[0], a[i]) for i in range(1, n))
        distinct = len({a[i].tobytes() for i in range(n)}) == n
        if split:
          require(distinct, f'{p}: params rng is split but some of the {n} '
                  'slices were initialised identically')
        else:
          require(same, f'{p}: params rng is not split but slices differ')
    else:
      require(np.shape(leaf) == base_shape, lambda: f'{p}: broadcast/carry '
              f'collection has shape {np.shape(leaf)}, plain {base_shape}')
  # carried collections immutable in apply: known finding C06:scan-carry-
  # immutable; every mutable-capable collection is made mutable here
  mutable = sorted(c for c in cols if c != 'params' and c not in broadcast)
  if carry:
    ctx.exclude('C06:scan-carry-immutable')
  vin = {c: V[c] for c in V}
  with sut('remat_scan apply'):
    r = scanned.apply(vin, jnp.asarray(x0),
                      mutable=mutable if mutable else False)
  y_s, upd_s = r if mutable else (r, {})
  # reference: row-major loop over all iterations
  import itertools
  h = x0
  carry_state = {col: vin[col] for col in carry}
  axis_out = {col: [] for col in variable_axes}
  for idx in itertools.product(*[range(l) for l in lengths]):
    v_i = {}
    for col in vin:
      if col in variable_axes:
        v_i[col] = take_multi(vin[col], idx, variable_axes[col])
      elif col in carry:
        v_i[col] = carry_state[col]
      else:
        v_i[col] = vin[col]
    mut_i = [col for col in mutable if col in variable_axes or col in carry]
    rr = plain.apply(v_i, jnp.asarray(h), mutable=mut_i if mut_i else False)
    if mut_i:
      h, upd = rr
      upd = unfreeze(upd)
    else:
      h, upd = rr, {}
    for col in variable_axes:
      axis_out[col].append(upd.get(col, v_i[col]) if col in mut_i
                           else v_i[col])
    for col in carry:
      if col in upd:
        carry_state[col] = upd[col]
  require(close(y_s, h), lambda: f'remat_scan output {np.asarray(y_s)} != '
          f'loop over {n} iterations {np.asarray(h)} (lengths={lengths}, '
          f'roles={roles})')
  upd_s = unfreeze(upd_s) if upd_s else {}
  require(set(upd_s) == set(mutable), lambda: f'returned collections '
          f'{sorted(upd_s)} != mutable {sorted(mutable)}')
  for col in mutable:
    if col in variable_axes:
      k = variable_axes[col]
      def restack(*leaves, k=k):
        a = np.stack([np.asarray(x) for x in leaves], axis=0)
        a = a.reshape(lengths + a.shape[1:])
        return np.moveaxis(a, list(range(len(lengths))),
                           list(range(k, k + len(lengths))))
      exp = jax.tree_util.tree_map(restack, *axis_out[col])
    elif col in carry:
      exp = carry_state[col]
    else:
      exp = vin[col]
    require(flat_close({col: upd_s[col]}, {col: exp}), lambda: f'collection '
            f'{col} ({roles[col]}) after remat_scan differs from the loop '
            f'(lengths={lengths})')
  ctx.note(labels=[f'levels{len(lengths)}', f'n{n}',
                   'default-axes' if default_axes else 'explicit'] +
           sorted(f'{c}:{roles[c]}' for c in cols),
           nontrivial=len(lengths) >= 2 and n >= 2 and bool(mutable))


# ----------------------------------------------------------------------------
def vmap_case():
  return st.fixed_dictionaries({
      'prog': body_prog(), 'dim': st.integers(1, 3),
      'size': st.integers(1, 4),
      'params_axis': st.sampled_from([0, 1, None]),
      'state_axis': st.sampled_from([0, None]),
      'in_axis': st.sampled_from([0, 1]), 'out_axis': st.sampled_from([0, 1]),
      'use_b': st.booleans(),
      'split_params': st.booleans(), 'split_dropout': st.booleans(),
      'mutable': st.lists(st.sampled_from(STATE), max_size=2, unique=True),
      'seed': st.integers(0, 2**16),
      'form': st.sampled_from(['class', 'class', 'method', 'class_methods']),
      # In(axis) / Out(axis) markers of flax.typing: an output-only sown
      # collection, input-only (read-only) state collections at apply time
      'out_marker': st.sampled_from([None, None, 0, 1]),
      'in_marker': st.booleans(),
  })


@clause('vmap_vs_per_index', strategy=vmap_case, quick=160, thorough=6000,
        quick_shards=16, thorough_shards=16, shrink=False,
        rule='generated mapped programs x transform applied to the class or '
        'as a method decorator x axis (0/1/None) of params x axis '
        '(0/None) of state collections x batch size 1-4 x in/out axes 0/1 x '
        'unmapped input x split_rngs x an output-only sown collection lifted '
        'with Out(0/1) x read-only collections lifted with In(axis) at apply '
        'time: init shapes and split/unsplit '
        'initialisation; apply equals calling the unlifted module once per '
        'index on the sliced variables (outputs and returned collections '
        'stacked along the declared axes, None-axis collections shared and '
        'read-only); per-index keys differ iff split; non-trivial = >=2 '
        'collections with different axes and size>=2, or an axis != 0')
def vmap_vs_per_index(case, ctx):
  prog, D, n = case['prog'], case['dim'], case['size']
  cols = cols_of(prog)
  axes = {}
  if 'params' in cols:
    axes['params'] = case['params_axis']
  for c in STATE:
    if c in cols:
      # a None-axis (shared) collection must not receive per-example values:
      # running statistics are data dependent, so they need an axis
      axes[c] = 0 if c == 'batch_stats' else case['state_axis']
  spec = L.freeze_json(prog)
  rng = np.random.default_rng(case['seed'])
  xs_base = rng.normal(size=(n, D)).astype(np.float32)
  xs = xs_base if case['in_axis'] == 0 else xs_base.T
  b = rng.normal(size=(D,)).astype(np.float32) if case['use_b'] else None
  # shared (None-axis) params are created once: their rng cannot be split
  split = {'params': case['split_params'] and axes.get('params') is not None,
           'dropout': case['split_dropout']}
  in_axes = (case['in_axis'], None) if b is not None else case['in_axis']
  form = case.get('form', 'class')
  out_k = case.get('out_marker')
  sow_acts = out_k is not None
  mutable = [c for c in case['mutable'] if c in cols and axes.get(c) is not None]

  def build(var_axes):
    vkw = dict(variable_axes=var_axes, split_rngs=split, in_axes=in_axes,
               out_axes=case['out_axis'], axis_size=n)
    if form == 'class':
      VM = nn.vmap(VCell, **vkw)
    elif form == 'class_methods':
      VM = nn.vmap(VCell, methods=['__call__'], **vkw)
    else:
      VM = method_form(nn.vmap, _vcell_body, vkw)
    return VM(spec=spec, dim=D, sow_acts=sow_acts)

  with sut('nn.vmap'):
    lift_axes = dict(axes)
    if sow_acts:
      lift_axes['acts'] = Out(out_k)
    mapped = build(lift_axes)
    # at apply time collections that are only read may be lifted input-only
    apply_axes = dict(lift_axes)
    in_marked = []
    if case.get('in_marker'):
      for c, a in axes.items():
        if a is not None and c not in mutable:
          apply_axes[c] = In(a)
          in_marked.append(c)
    mapped_apply = build(apply_axes) if in_marked else mapped
  plain = VCell(spec=spec, dim=D, sow_acts=sow_acts)
  args = (jnp.asarray(xs),) + ((jnp.asarray(b),) if b is not None else ())
  keys = {'params': jax.random.key(case['seed']),
          'dropout': jax.random.key(case['seed'] + 1)}
  with sut('vmap init'):
    V = unfreeze(mapped.init(keys, *args))
  with sut('plain init'):
    Vp = unfreeze(plain.init(keys, jnp.asarray(xs_base[0]),
                             *((jnp.asarray(b),) if b is not None else ())))
  if sow_acts:
    # output-only collection: what every index sowed, stacked along out_k
    a_v, a_p = V.pop('acts', None), Vp.pop('acts')
    require(a_v is not None and set(a_v) == {'h'} and len(a_v['h']) == 1
            and np.shape(a_v['h'][0]) == np.shape(
                np.stack([np.asarray(a_p['h'][0])] * n, axis=out_k)),
            lambda: f'init: Out({out_k}) collection acts is '
            f'{jax.tree_util.tree_map(np.shape, a_v)}, per-index value has '
            f'shape {np.shape(a_p["h"][0])} (n={n})')
  fp, fv = L.flat(Vp), L.flat(V)
  require(set(fp) == set(fv), lambda: f'vmap init tree {sorted(fv)} != plain '
          f'{sorted(fp)}')
  for p, leaf in fv.items():
    col = p[0]
    base_shape = np.shape(fp[p])
    k = axes.get(col)
    if k is not None:
      exp = base_shape[:k] + (n,) + base_shape[k:]
      require(np.shape(leaf) == exp, lambda: f'{p}: shape {np.shape(leaf)}, '
              f'expected {exp}')
      if col == 'params' and n >= 2 and p[-1] != 'bias':
        slices = [np.take(np.asarray(leaf), i, axis=k) for i in range(n)]
        same = all(np.array_equal(slices[0], s) for s in slices[1:])
        require(same != split['params'], lambda: f'{p}: params rng split='
                f'{split["params"]} but slices identical={same}')
    else:
      require(np.shape(leaf) == base_shape, f'{p}: unmapped shape changed')
  ret_axes = dict(axes)
  if sow_acts:
    mutable = mutable + ['acts']
    ret_axes['acts'] = out_k
  with sut('vmap apply'):
    r = mapped_apply.apply(V, *args, rngs={'dropout': keys['dropout']},
                           mutable=mutable if mutable else False)
  if mutable:
    (y_s, kd_s), upd_s = r
    upd_s = unfreeze(upd_s)
  else:
    (y_s, kd_s), upd_s = r, {}
  ys, outs = [], {c: [] for c in mutable}
  for i in range(n):
    v_i = {c: (take(V[c], i, axes[c]) if axes.get(c) is not None else V[c])
           for c in V}
    rr = plain.apply(v_i, jnp.asarray(xs_base[i]),
                     *((jnp.asarray(b),) if b is not None else ()),
                     rngs={'dropout': keys['dropout']},
                     mutable=mutable if mutable else False)
    if mutable:
      (y, _), upd = rr
      upd = unfreeze(upd)
      for c in mutable:
        outs[c].append(upd[c])
    else:
      (y, _) = rr
    ys.append(np.asarray(y))
  require(close(y_s, np.stack(ys, axis=case['out_axis'])), lambda: 'vmap '
          f'output differs from per-index calls (axes={axes}, out_axis='
          f'{case["out_axis"]})')
  require(set(upd_s) == set(mutable), 'vmap returned collections')
  for c in mutable:
    require(flat_close({c: upd_s[c]}, {c: stack(outs[c], ret_axes[c])}),
            lambda: f'collection {c} after vmap differs from per-index stack '
            f'(variable_axes={apply_axes})')
  kd = np.moveaxis(np.asarray(kd_s), case['out_axis'], 0)
  if n >= 2:
    rows = {tuple(r_) for r_ in kd.reshape(n, -1)}
    require((len(rows) == n) if split['dropout'] else (len(rows) == 1),
            lambda: f'dropout split={split["dropout"]} but {len(rows)} '
            f'distinct keys over {n} indices')
  ctx.note(labels=[f'n{n}', f'form-{form}', f'Out-{out_k}',
                   'In' if in_marked else 'noIn']
           + sorted(f'{c}:{a}' for c, a in axes.items()),
           nontrivial=(len(set(axes.values())) >= 2 and n >= 2)
           or any(a not in (0, None) for a in axes.values()))


KNOWN_CASE = {
    'prog': {'style': 'compact', 'cls': 'A',
             'ops': [{'op': 'counter', 'col': 'counters', 'name': 'c'}]},
    'dim': 1, 'length': 2, 'reverse': False, 'unroll': 1,
    'params_role': 'broadcast', 'stats_role': 'axis0',
    'counters_role': 'carry', 'in_axis': 0, 'out_axis': 0, 'use_b': False,
    'split_params': False, 'split_dropout': False, 'mutable': [], 'seed': 0,
    'remat_scan': False}


@clause('known_probes', enum=lambda ctx: [KNOWN_CASE], quick_shards=1,
        thorough_shards=1,
        rule='re-executes the recorded reproduction of the known finding '
        '(nn.scan with a carried collection that is immutable in apply)')
def known_probes(case, ctx):
  ctx.probe_known = True
  try:
    scan_vs_loop(case, ctx)
  except Violation as v:
    raise Violation(str(v), key='C06:scan-carry-immutable') from None
