"""C12 — feed-forward layers compute their documented formulas; Linen == NNX."""
from __future__ import annotations

import json
import os

import numpy as np
from hypothesis import strategies as st

from harness.core import begin, clause, Violation, sut, require, expect_raises
from harness import np_ref as R

import jax
import jax.numpy as jnp
import flax.linen as nn
from flax import nnx
from flax.core import unfreeze

begin('C12')

ASSUMPTIONS = [
    'references are float64 NumPy direct sums / definitions written from the '
    'docstrings (harness/np_ref.py); layers run with dtype=param_dtype='
    'float64 under jax_enable_x64 and are compared with rtol=1e-9, atol=1e-10',
    'input-dilated convolutions get inputs at least as large as the kernel: '
    'the installed XLA aborts the process otherwise (check failure in '
    'conv_operand_swapper), an environment defect that would turn the check '
    'into a harness error; adjusted cases are counted',
    'input_dilation > 1 is combined only with VALID or explicit padding, and '
    'CIRCULAR/REFLECT only with stride 1 (the docstrings do not define window '
    'alignment otherwise)',
    'ConvTranspose is checked through the adjoint identity <ConvT(x), y> = '
    '<x, Conv(y)> (transpose_kernel=True, VALID) and linearity; ConvLocal '
    'through the pointwise (kernel_size=1) case',
    'Dropout statistics: keep frequency within a 6-sigma binomial band over '
    '>= 4096 elements',
]

F64 = dict(rtol=1e-9, atol=1e-10)
KEY = jax.random.key


def close(a, b, tol=F64):
  a, b = np.asarray(a), np.asarray(b)
  return a.shape == b.shape and np.allclose(a, b, **tol)


def rnd(rng, shape):
  return rng.uniform(-2.0, 2.0, size=tuple(shape))


def f64(mod_cls, *a, **k):
  return mod_cls(*a, dtype=jnp.float64, param_dtype=jnp.float64, **k)


def randomize(params, rng):
  """Replace every parameter by random float64 values (biases included)."""
  return jax.tree_util.tree_map(
      lambda p: jnp.asarray(rnd(rng, np.shape(p)), jnp.float64), params)


# ----------------------------------------------------------------------------
def dense_case():
  return st.fixed_dictionaries({
      'kind': st.sampled_from(['dense', 'general', 'general', 'einsum']),
      'shape': st.lists(st.integers(1, 3), min_size=1, max_size=4),
      'features': st.lists(st.integers(1, 3), min_size=1, max_size=2),
      'n_axis': st.integers(1, 2), 'axis_pick': st.integers(0, 10),
      'n_batch': st.integers(0, 1), 'use_bias': st.booleans(),
      'seed': st.integers(0, 2**16)})


@clause('dense_family', strategy=dense_case, quick=300, thorough=20000,
        quick_shards=6, x64=True, shrink=False,
        rule='Dense / DenseGeneral (features tuples, contracted axis tuples '
        'incl. negative indices, leading batch_dims) / Einsum (Linen and NNX, '
        'with bias, equation from the constructor or overridden at call time) '
        'on inputs of rank 1-4: output equals np.einsum of input and kernel plus bias; '
        'non-trivial = >=2 contracted axes, a feature tuple or batch_dims')
def dense_family(case, ctx):
  rng = np.random.default_rng(case['seed'])
  shape = tuple(case['shape'])
  x = jnp.asarray(rnd(rng, shape))
  r = len(shape)
  kind = case['kind']
  if kind == 'dense':
    m = f64(nn.Dense, case['features'][0], use_bias=case['use_bias'])
    with sut('Dense'):
      v = unfreeze(m.init(KEY(0), x))
      v = {'params': randomize(v['params'], rng)}
      y = m.apply(v, x)
    ref = np.asarray(x) @ np.asarray(v['params']['kernel'])
    if case['use_bias']:
      ref = ref + np.asarray(v['params']['bias'])
    require(close(y, ref), 'Dense != x @ kernel + bias')
    ctx.note(labels=['dense'], nontrivial=False)
    return
  if kind == 'einsum':
    # contract the last axis with a (d, f) kernel via an explicit string
    letters = 'abcd'[:r]
    es = f'{letters},{letters[-1]}z->{letters[:-1]}z'
    f = case['features'][0]
    # optionally another equation is given at call time (it takes precedence
    # over the constructor's): same contraction, the kernel's output axis
    # first instead of last
    es_call = f'{letters},{letters[-1]}z->z{letters[:-1]}' \
        if case['axis_pick'] % 2 == 0 else None
    es_used = es_call or es
    use_bias = case['use_bias']
    api = 'nnx' if case['n_axis'] == 2 else 'linen'
    K = rnd(rng, (shape[-1], f))
    B = rnd(rng, (f,))
    if api == 'linen':
      # (Linen accepts the equation either in the constructor or at call
      # time, not both)
      m = f64(nn.Einsum, (shape[-1], f), None if es_call else es,
              use_bias=use_bias)
      with sut('Einsum'):
        v = unfreeze(m.init(KEY(0), x, es) if es_call else m.init(KEY(0), x))
        require(np.shape(v['params']['kernel']) == K.shape and (
            not use_bias or np.shape(v['params']['bias']) == B.shape),
                lambda: 'Einsum parameter shapes '
                f'{jax.tree_util.tree_map(np.shape, v["params"])}')
        v = {'params': dict(kernel=jnp.asarray(K), **(
            {'bias': jnp.asarray(B)} if use_bias else {}))}
        y = m.apply(v, x, es_call) if es_call else m.apply(v, x)
    else:
      with sut('nnx.Einsum'):
        m = nnx.Einsum(es, (shape[-1], f), (f,) if use_bias else None,
                       dtype=jnp.float64, param_dtype=jnp.float64,
                       rngs=nnx.Rngs(0))
        m.kernel.value = jnp.asarray(K)
        if use_bias:
          m.bias.value = jnp.asarray(B)
        y = m(x, es_call) if es_call else m(x)
    ref = np.einsum(es_used, np.asarray(x), K)
    if use_bias:
      # the bias runs along the kernel's surviving axis (z) of the result
      ref = ref + (B.reshape((f,) + (1,) * (r - 1)) if es_call else B)
    require(close(y, ref), lambda: f'{api} Einsum({es})(x'
            + (f', {es_call!r}' if es_call else '') + ') != np.einsum'
            + (' + bias along the kernel\'s output axis' if use_bias else ''))
    ctx.note(labels=['einsum', api, 'bias' if use_bias else 'nobias',
                     'call-time-eq' if es_call else 'ctor-eq'],
             nontrivial=r >= 2)
    return
  nb = min(case['n_batch'], r - 1)
  free = list(range(nb, r))
  na = min(case['n_axis'], len(free))
  # pick contracted axes among the non-batch axes
  rs = np.random.default_rng(case['axis_pick'])
  axes = sorted(rs.choice(free, size=na, replace=False).tolist())
  use_neg = case['axis_pick'] % 2 == 1
  axis_arg = tuple((a - r) if use_neg else a for a in axes)
  feats = tuple(case['features'])
  m = f64(nn.DenseGeneral, feats if len(feats) > 1 else feats[0],
          axis=axis_arg if len(axis_arg) > 1 else axis_arg[0],
          batch_dims=tuple(range(nb)), use_bias=case['use_bias'])
  with sut('DenseGeneral'):
    v = unfreeze(m.init(KEY(0), x))
    v = {'params': randomize(v['params'], rng)}
    y = m.apply(v, x)
  K = np.asarray(v['params']['kernel'])
  L = 'abcdefgh'
  xi = L[:r]
  bl = ''.join(xi[i] for i in range(nb))
  cl = ''.join(xi[a] for a in axes)
  fl = 'xyz'[:len(feats)]
  rest = ''.join(xi[i] for i in range(r) if i not in axes and i >= nb)
  es = f'{xi},{bl}{cl}{fl}->{bl}{rest}{fl}'
  require(K.shape == tuple(shape[i] for i in range(nb)) + tuple(
      shape[a] for a in axes) + feats, lambda: f'kernel shape {K.shape}')
  ref = np.einsum(es, np.asarray(x), K)
  if case['use_bias']:
    b = np.asarray(v['params']['bias'])
    bshape = tuple(shape[i] for i in range(nb)) + (1,) * len(rest) + feats
    ref = ref + b.reshape(bshape)
  require(close(y, ref), lambda: f'DenseGeneral(axis={axis_arg}, batch_dims='
          f'{tuple(range(nb))}, features={feats}) != einsum {es}')
  # the NNX layer with the same kernel / bias and the same axes
  with sut('nnx.LinearGeneral'):
    nm = nnx.LinearGeneral(
        tuple(shape[a] for a in axes), feats, axis=axis_arg,
        batch_axis={i: shape[i] for i in range(nb)},
        use_bias=case['use_bias'], dtype=jnp.float64,
        param_dtype=jnp.float64, rngs=nnx.Rngs(0))
    require(nm.kernel.value.shape == K.shape and (
        not case['use_bias'] or nm.bias.value.shape == b.shape), lambda:
            f'nnx.LinearGeneral kernel shape {nm.kernel.value.shape} vs '
            f'Linen {K.shape}')
    nm.kernel.value = jnp.asarray(K)
    if case['use_bias']:
      nm.bias.value = jnp.asarray(b)
    yn = nm(x)
  require(close(yn, ref), lambda: f'nnx.LinearGeneral(axis={axis_arg}, '
          f'batch_axis={dict((i, shape[i]) for i in range(nb))}, out_features='
          f'{feats}) on input {shape} != einsum {es} + bias broadcast over '
          'the free axes')
  ctx.note(labels=['general', f'axes{na}', f'batch{nb}'],
           nontrivial=na >= 2 or len(feats) >= 2 or nb >= 1)


# ----------------------------------------------------------------------------
def conv_case():
  return st.integers(1, 3).flatmap(lambda nd: st.fixed_dictionaries({
      'nd': st.just(nd),
      'spatial': st.lists(st.integers(1, 6), min_size=nd, max_size=nd),
      'kernel': st.lists(st.integers(1, 3), min_size=nd, max_size=nd),
      'strides': st.lists(st.integers(1, 3), min_size=nd, max_size=nd),
      'k_dil': st.lists(st.integers(1, 2), min_size=nd, max_size=nd),
      'in_dil': st.lists(st.integers(1, 2), min_size=nd, max_size=nd),
      'padding': st.sampled_from(['SAME', 'VALID', 'CIRCULAR', 'REFLECT',
                                  'CAUSAL', 'int', 'pairs', 'ints', 'mixed']),
      # how sequence-valued hyper-parameters are spelled: as an int when
      # uniform, None when all ones, a list instead of a tuple
      'spell': st.integers(0, 31),
      'pad_vals': st.lists(st.tuples(st.integers(0, 2), st.integers(0, 2)),
                           min_size=nd, max_size=nd),
      'groups': st.sampled_from([1, 1, 2]), 'cin_mult': st.integers(1, 2),
      'fout_mult': st.integers(1, 2), 'use_bias': st.booleans(),
      'mask': st.booleans(), 'batch': st.sampled_from(['one', 'none', 'two']),
      'seed': st.integers(0, 2**16)}))


@clause('conv', strategy=conv_case, quick=400, thorough=30000,
        quick_shards=10, thorough_shards=16, x64=True, shrink=False,
        rule='Conv of rank 1-3: kernel 1-3, stride 1-3, kernel dilation 1-2, '
        'input dilation 1-2, feature_group_count 1/2, kernel mask, padding '
        'SAME/VALID/CIRCULAR/REFLECT/CAUSAL(1-D)/int/one int per dim/explicit '
        'pairs/mixed, strides and dilations spelled as tuple, list, int or '
        'None, kernel_size as int for rank 1, no/one/'
        'two batch dims, use_bias: output equals a direct nested-loop sum over '
        'output positions x kernel taps x grouped channels on an explicitly '
        'padded/dilated float64 input; non-trivial = >=2 non-default hyper-'
        'parameters')
def conv(case, ctx):
  if os.environ.get('VERIF_TRACE'):
    with open(os.environ['VERIF_TRACE'], 'a') as f_:
      f_.write(json.dumps(case) + '\n')
  nd = case['nd']
  pad = case['padding']
  if pad == 'CAUSAL' and nd != 1:
    # CAUSAL is defined for 1-D convolutions only: keep the first dimension
    nd = 1
    case = dict(case, nd=1, **{k: case[k][:1] for k in (
        'spatial', 'kernel', 'strides', 'k_dil', 'in_dil', 'pad_vals')})
  rng = np.random.default_rng(case['seed'])
  g = case['groups']
  cin, fout = g * case['cin_mult'], g * case['fout_mult']
  strides, in_dil = list(case['strides']), list(case['in_dil'])
  spatial = list(case['spatial'])
  if pad == 'CAUSAL' and nd != 1:
    pad = 'SAME'
  if pad in ('CIRCULAR', 'REFLECT'):
    strides = [1] * nd
    in_dil = [1] * nd
    k_eff = [(k - 1) * d + 1 for k, d in zip(case['kernel'], case['k_dil'])]
    # wrap/reflect need the input to be at least as large as the padding
    spatial = [max(s, k) for s, k in zip(spatial, k_eff)]
  if pad in ('SAME', 'CAUSAL'):
    in_dil = [1] * nd
  if any(d_ != 1 for d_ in in_dil):
    # the installed XLA aborts the process (check failure in
    # conv_operand_swapper) when an input-dilated convolution has a kernel
    # larger than the undilated input: an environment defect outside flax,
    # avoided by construction (inputs at least as large as the kernel)
    k_eff_ = [(k - 1) * d + 1 for k, d in zip(case['kernel'], case['k_dil'])]
    if any(s_ < k_ for s_, k_ in zip(spatial, k_eff_)):
      ctx.exclude('xla-abort-input-dilation-kernel-larger-than-input')
    spatial = [max(s_, k_) for s_, k_ in zip(spatial, k_eff_)]
  if pad == 'int':
    padding = case['pad_vals'][0][0]
  elif pad == 'pairs':
    padding = [tuple(p) for p in case['pad_vals']]
  elif pad == 'ints':
    # one int per dimension: the same padding on both sides
    padding = [p[0] for p in case['pad_vals']]
  elif pad == 'mixed':
    padding = [p[0] if i % 2 == 0 else tuple(p)
               for i, p in enumerate(case['pad_vals'])]
  else:
    padding = pad
  # output must be non-empty
  k_eff = [(k - 1) * d + 1 for k, d in zip(case['kernel'], case['k_dil'])]
  if pad in ('VALID', 'int', 'pairs', 'ints', 'mixed'):
    lo_hi = [(0, 0)] * nd if pad == 'VALID' else R.resolve_padding(
        padding, spatial, case['kernel'], strides, case['k_dil'])[1]
    spatial = [max(s, -(-(k - lo - hi - 1) // d) + 1) if (
        (s - 1) * d + 1 + lo + hi) < k else s
               for s, k, d, (lo, hi) in zip(spatial, k_eff, in_dil, lo_hi)]
  if any(d != 1 for d in in_dil) and padding == 'VALID':
    padding = [(0, 0)] * nd     # lax rejects string padding with lhs dilation
  bshape = {'one': (2,), 'none': (), 'two': (2, 2)}[case['batch']]
  x = rnd(rng, bshape + tuple(spatial) + (cin,))
  kshape = tuple(case['kernel']) + (cin // g, fout)
  mask = (rng.integers(0, 2, size=kshape)).astype(np.float64) if case['mask'] \
      else None
  sp = case.get('spell', 0)
  def spelled(seq, bit_int, bit_none, bit_list):
    seq = list(seq)
    if sp & bit_none and all(v == 1 for v in seq):
      return None
    if sp & bit_int and len(set(seq)) == 1:
      return seq[0]
    return seq if sp & bit_list else tuple(seq)
  ksz = case['kernel'][0] if (nd == 1 and sp & 16) else (
      list(case['kernel']) if sp & 8 else tuple(case['kernel']))
  hyper = dict(strides=spelled(strides, 1, 2, 8),
               input_dilation=spelled(in_dil, 4, 2, 8),
               kernel_dilation=spelled(case['k_dil'], 4, 2, 8))
  m = f64(nn.Conv, fout, ksz, padding=padding, feature_group_count=g,
          use_bias=case['use_bias'],
          mask=None if mask is None else jnp.asarray(mask), **hyper)
  with sut('Conv'):
    v = unfreeze(m.init(KEY(0), jnp.asarray(x)))
    v = {'params': randomize(v['params'], rng)}
    y = m.apply(v, jnp.asarray(x))
  K = np.asarray(v['params']['kernel'])
  require(K.shape == kshape, lambda: f'kernel shape {K.shape} != {kshape}')
  if mask is not None:
    K = K * mask
  xb = x.reshape((-1,) + x.shape[len(bshape):])
  ref = R.conv(xb, K, np.asarray(v['params']['bias']) if case['use_bias']
               else None, strides, padding, in_dil, case['k_dil'], g)
  ref = ref.reshape(bshape + ref.shape[1:])
  require(close(y, ref), lambda: f'Conv(kernel={case["kernel"]}, strides='
          f'{strides}, padding={padding}, in_dil={in_dil}, k_dil='
          f'{case["k_dil"]}, groups={g}, mask={case["mask"]}; spelled '
          f'kernel_size={ksz}, {hyper}) on input '
          f'{x.shape}: output {np.asarray(y).shape} differs from the direct '
          f'sum {ref.shape}; max |diff| = '
          f'{np.max(np.abs(np.asarray(y) - ref)) if np.asarray(y).shape == ref.shape else "shape"}')
  nondefault = sum([any(s != 1 for s in strides), any(d != 1 for d in in_dil),
                    any(d != 1 for d in case['k_dil']), g != 1,
                    case['mask'], pad not in ('SAME',), case['batch'] != 'one'])
  ctx.note(labels=[f'nd{nd}', f'pad:{pad}', f'g{g}'], nontrivial=nondefault >= 2)


# ----------------------------------------------------------------------------
@clause('conv_transpose_adjoint',
        strategy=lambda: st.fixed_dictionaries({
            'nd': st.integers(1, 2), 'spatial': st.integers(1, 4),
            'kernel': st.integers(1, 3), 'stride': st.integers(1, 3),
            'cin': st.integers(1, 2), 'cout': st.integers(1, 2),
            'seed': st.integers(0, 2**16)}),
        quick=200, thorough=8000, quick_shards=6, x64=True, shrink=False,
        rule='ConvTranspose(transpose_kernel=True, VALID, stride 1-3, kernel '
        '1-3, rank 1-2) is the adjoint of Conv with the same kernel: <ConvT(x)'
        ', y> == <x, Conv(y)> for random x, y; plus linearity in x; non-'
        'trivial = stride>=2 or kernel>=2')
def conv_transpose_adjoint(case, ctx):
  nd, s, k = case['nd'], case['stride'], case['kernel']
  rng = np.random.default_rng(case['seed'])
  cin, cout = case['cin'], case['cout']
  sp = (case['spatial'],) * nd
  x = rnd(rng, (1,) + sp + (cin,))
  ct = f64(nn.ConvTranspose, cout, (k,) * nd, strides=(s,) * nd,
           padding='VALID', use_bias=False, transpose_kernel=True)
  with sut('ConvTranspose'):
    v = unfreeze(ct.init(KEY(0), jnp.asarray(x)))
    v = {'params': randomize(v['params'], rng)}
    yx = np.asarray(ct.apply(v, jnp.asarray(x)))
    yx2 = np.asarray(ct.apply(v, jnp.asarray(2.5 * x)))
  require(close(yx2, 2.5 * yx), 'ConvTranspose is not linear in its input')
  K = np.asarray(v['params']['kernel'])
  y = rnd(rng, yx.shape)
  # Conv with the same kernel maps y (cout channels) back to x's space
  ref = R.conv(y, K, None, [s] * nd, 'VALID', [1] * nd, [1] * nd, 1)
  require(K.shape == (k,) * nd + (cout, cin), lambda: 'transpose_kernel=True '
          f'kernel shape {K.shape}, expected {(k,) * nd + (cout, cin)}')
  require(ref.shape == x.shape, lambda: f'Conv(y) shape {ref.shape} != x '
          f'shape {x.shape} (ConvTranspose output {yx.shape})')
  lhs, rhs = float(np.sum(yx * y)), float(np.sum(x * ref))
  require(abs(lhs - rhs) <= 1e-8 * (1 + abs(lhs)), lambda: f'<ConvT(x),y> = '
          f'{lhs} but <x,Conv(y)> = {rhs}')
  ctx.note(labels=[f'nd{nd}', f's{s}', f'k{k}'], nontrivial=s >= 2 or k >= 2)


# ----------------------------------------------------------------------------
@clause('embed_pool_local',
        strategy=lambda: st.fixed_dictionaries({
            'vocab': st.integers(1, 6), 'feat': st.integers(1, 4),
            'ids': st.lists(st.integers(0, 100), min_size=1, max_size=6),
            'nd': st.integers(1, 2),
            'spatial': st.lists(st.integers(1, 6), min_size=2, max_size=2),
            'window': st.lists(st.integers(1, 3), min_size=2, max_size=2),
            'strides': st.lists(st.integers(1, 3), min_size=2, max_size=2),
            'padding': st.sampled_from(['VALID', 'SAME', 'pairs']),
            'pads': st.lists(st.tuples(st.integers(0, 1), st.integers(0, 1)),
                             min_size=2, max_size=2),
            'cip': st.booleans(), 'seed': st.integers(0, 2**16)}),
        quick=300, thorough=15000, quick_shards=6, x64=True, shrink=False,
        rule='Embed lookup / attend; avg/max/min pool (window 1-3, stride 1-3,'
        ' VALID/SAME/explicit pads, count_include_pad) vs window reductions; '
        'ConvLocal with kernel_size 1 vs a per-position matrix product; non-'
        'trivial = SAME/explicit padding with stride or window > 1')
def embed_pool_local(case, ctx):
  rng = np.random.default_rng(case['seed'])
  V, F = case['vocab'], case['feat']
  ids = np.asarray([i % V for i in case['ids']]).reshape(1, -1)
  e = f64(nn.Embed, V, F)
  with sut('Embed'):
    v = unfreeze(e.init(KEY(0), jnp.asarray(ids)))
    v = {'params': randomize(v['params'], rng)}
    y = e.apply(v, jnp.asarray(ids))
    q = rnd(rng, (3, F))
    att = e.apply(v, jnp.asarray(q), method='attend')
  tab = np.asarray(v['params']['embedding'])
  require(close(y, tab[ids]), 'Embed is not a table lookup')
  require(close(att, q @ tab.T), 'Embed.attend != query @ embedding.T')
  nd = case['nd']
  sp = tuple(case['spatial'][:nd])
  win, st_ = tuple(case['window'][:nd]), tuple(case['strides'][:nd])
  win = tuple(min(w, s) for w, s in zip(win, sp)) if case['padding'] == \
      'VALID' else win
  padding = case['padding'] if case['padding'] != 'pairs' else [
      tuple(p) for p in case['pads'][:nd]]
  if padding not in ('VALID', 'SAME'):
    # every window must contain at least one real element (otherwise the
    # average without padding is 0/0)
    padding = [(min(lo, w - 1), min(hi, w - 1)) for (lo, hi), w in zip(
        padding, win)]
    win = tuple(min(w, s + lo + hi) for w, s, (lo, hi) in zip(win, sp,
                                                               padding))
  x = rnd(rng, (2,) + sp + (3,))
  with sut('pooling'):
    ya = nn.avg_pool(jnp.asarray(x), win, st_, padding,
                     count_include_pad=case['cip'])
    ym = nn.max_pool(jnp.asarray(x), win, st_, padding)
    from flax.linen import pooling as _pooling
    yn = _pooling.min_pool(jnp.asarray(x), win, st_, padding)
  require(close(ya, R.pool(x, win, st_, padding, 'avg', case['cip'])),
          lambda: f'avg_pool(window={win}, strides={st_}, padding={padding}, '
          f'count_include_pad={case["cip"]}) differs')
  require(close(ym, R.pool(x, win, st_, padding, 'max')), 'max_pool differs')
  require(close(yn, R.pool(x, win, st_, padding, 'min')), 'min_pool differs')
  # ConvLocal, pointwise
  cl = f64(nn.ConvLocal, F, (1,) * nd, use_bias=True)
  with sut('ConvLocal'):
    vl = unfreeze(cl.init(KEY(0), jnp.asarray(x)))
    vl = {'params': randomize(vl['params'], rng)}
    yl = cl.apply(vl, jnp.asarray(x))
  K, b = np.asarray(vl['params']['kernel']), np.asarray(vl['params']['bias'])
  require(K.shape == sp + (3, F) and b.shape == sp + (F,),
          lambda: f'ConvLocal shapes {K.shape} {b.shape}')
  idx = 'ab'[:nd]
  ref = np.einsum(f'n{idx}c,{idx}cf->n{idx}f', x, K) + b
  require(close(yl, ref), 'ConvLocal(kernel_size=1) != per-position product')
  ctx.note(labels=[f'pad:{case["padding"]}'],
           nontrivial=case['padding'] != 'VALID' and (max(win) > 1 or
                                                      max(st_) > 1))


# ----------------------------------------------------------------------------
def norm_case():
  return st.fixed_dictionaries({
      'kind': st.sampled_from(['layer', 'rms', 'group', 'instance', 'batch']),
      'shape': st.lists(st.integers(1, 4), min_size=2, max_size=4),
      'eps': st.sampled_from([1e-6, 1e-3, 0.1]),
      'use_bias': st.booleans(), 'use_scale': st.booleans(),
      'fast': st.booleans(), 'mask': st.booleans(),
      'red_pick': st.integers(0, 20), 'groups': st.integers(1, 3),
      # 0: the default single last feature axis; otherwise a subset of the
      # non-batch axes spelled in a generated order with negative indices
      'feat_pick': st.sampled_from([0, 0, 1, 2, 3, 4, 5, 6, 7]),
      'momentum': st.sampled_from([0.0, 0.5, 0.9, 0.99]),
      'seed': st.integers(0, 2**16)})


@clause('normalization', strategy=norm_case, quick=500, thorough=30000,
        quick_shards=8, thorough_shards=16, x64=True, shrink=False,
        rule='LayerNorm (reduction axes subsets; feature axes: subsets of the '
        'non-batch axes spelled in any order with negative indices), '
        'BatchNorm likewise for `axis`, RMSNorm, GroupNorm '
        '(num_groups), InstanceNorm, BatchNorm (train: batch statistics and '
        'running update momentum*old+(1-momentum)*batch; inference: stored '
        'statistics used and unchanged) x epsilon x use_bias/use_scale x '
        'use_fast_variance x mask, vs mean/variance definitions with masks as '
        'weights; non-trivial = mask or non-default axes/groups or BatchNorm')
def normalization(case, ctx):
  rng = np.random.default_rng(case['seed'])
  shape = tuple(case['shape'])
  x = rnd(rng, shape)
  r = len(shape)
  C = shape[-1]
  kind = case['kind']
  eps, ub, us = case['eps'], case['use_bias'], case['use_scale']
  mask = None
  if case['mask']:
    mask = rng.integers(0, 2, size=shape).astype(bool)
  kw = dict(epsilon=eps, use_bias=ub, use_scale=us)
  def feature_axes(allowed):
    """(sorted positive axes, the spelling handed to the layer)."""
    fp = case.get('feat_pick', 0)
    if fp == 0 or not allowed:
      return (r - 1,), -1
    rs_ = np.random.default_rng(1000 + fp + 17 * case['red_pick'])
    n_ = 1 + (fp % len(allowed))
    ax = sorted(rs_.choice(allowed, size=min(n_, len(allowed)),
                           replace=False).tolist())
    spelled = [a - r if rs_.integers(0, 2) else a for a in ax]
    spelled = [spelled[i] for i in rs_.permutation(len(spelled))]
    return tuple(ax), (tuple(spelled) if len(spelled) > 1 or fp % 2
                       else spelled[0])
  def bshape(ax):
    return tuple(shape[a] if a in ax else 1 for a in range(r))
  def finish(m, v, y, mean, var, what, axes_mask=None, feat=None):
    p = v.get('params', {})
    sc = np.asarray(p['scale']) if us else None
    bi = np.asarray(p['bias']) if ub and 'bias' in p else None
    if feat is not None:
      pshape = tuple(shape[a] for a in feat)
      for nm, a_ in (('scale', sc), ('bias', bi)):
        if a_ is not None:
          require(a_.shape == pshape, lambda: f'{what}: parameter {nm} has '
                  f'shape {a_.shape}, the feature axes {feat} of an input '
                  f'{shape} have sizes {pshape}')
      sc = None if sc is None else sc.reshape(bshape(feat))
      bi = None if bi is None else bi.reshape(bshape(feat))
      mean = np.asarray(mean)
      var = np.asarray(var)
    ref = R.normalize(x, mean, var, eps, sc, bi)
    require(close(y, ref, dict(rtol=1e-7, atol=1e-8)), lambda: f'{what} '
            f'differs from (x-mean)/sqrt(var+eps)*scale+bias; max diff '
            f'{np.max(np.abs(np.asarray(y) - ref))}')
  if kind == 'layer':
    allr = list(range(1, r))
    rs = np.random.default_rng(case['red_pick'])
    n = 1 + case['red_pick'] % len(allr)
    red = tuple(sorted(rs.choice(allr, size=n, replace=False).tolist()))
    if (r - 1) not in red:
      red = red + (r - 1,)
    # every reduced group must contain an unmasked element
    if mask is not None:
      keep = np.asarray(mask, float).sum(axis=red, keepdims=True)
      mask = np.where(keep == 0, True, mask)
    feat, feat_spelled = feature_axes(list(range(1, r)))
    m = f64(nn.LayerNorm, reduction_axes=red, feature_axes=feat_spelled,
            use_fast_variance=case['fast'], **kw)
    with sut('LayerNorm'):
      v = unfreeze(m.init(KEY(0), jnp.asarray(x)))
      if v.get('params'):
        v = {'params': randomize(v['params'], rng)}
      y = m.apply(v, jnp.asarray(x), mask=None if mask is None else
                  jnp.asarray(mask))
      # the same axes listed in ascending positive order: same variables,
      # same output
      y_sorted = f64(nn.LayerNorm, reduction_axes=red, feature_axes=feat,
                     use_fast_variance=case['fast'], **kw).apply(
                         v, jnp.asarray(x), mask=None if mask is None else
                         jnp.asarray(mask))
    mean, var = R.moments(x, red, mask)
    finish(m, v, y, mean, var, f'LayerNorm(reduction_axes={red}, '
           f'feature_axes={feat_spelled})', feat=feat)
    require(close(y, y_sorted, dict(rtol=0, atol=0)), lambda: f'LayerNorm('
            f'feature_axes={feat_spelled}) differs from feature_axes={feat} '
            'on the same variables')
    ctx.note(labels=['layer', f'feat{len(feat)}'] + (
        ['feat-unsorted'] if isinstance(feat_spelled, tuple) and tuple(
            a % r for a in feat_spelled) != feat else []),
             nontrivial=mask is not None or red != (r - 1,)
             or feat != (r - 1,))
    return
  if kind == 'rms':
    if mask is not None:
      keep = np.asarray(mask, float).sum(axis=-1, keepdims=True)
      mask = np.where(keep == 0, True, mask)
    m = f64(nn.RMSNorm, epsilon=eps, use_scale=us)
    with sut('RMSNorm'):
      v = unfreeze(m.init(KEY(0), jnp.asarray(x)))
      if v.get('params'):
        v = {'params': randomize(v['params'], rng)}
      y = m.apply(v, jnp.asarray(x), mask=None if mask is None else
                  jnp.asarray(mask))
    if mask is None:
      ms = (x ** 2).mean(axis=-1, keepdims=True)
    else:
      mm = mask.astype(float)
      ms = (x ** 2 * mm).sum(axis=-1, keepdims=True) / mm.sum(axis=-1,
                                                              keepdims=True)
    ref = x / np.sqrt(ms + eps)
    if us:
      ref = ref * np.asarray(v['params']['scale'])
    require(close(y, ref, dict(rtol=1e-7, atol=1e-8)), 'RMSNorm differs from '
            'x / sqrt(mean(x^2) + eps) * scale')
    ctx.note(labels=['rms'], nontrivial=mask is not None)
    return
  if kind in ('group', 'instance'):
    if kind == 'group':
      G = [g for g in (1, 2, 3, 4) if C % g == 0][case['groups'] % len(
          [g for g in (1, 2, 3, 4) if C % g == 0])]
      m = f64(nn.GroupNorm, num_groups=G, **kw)
    else:
      G = C
      m = f64(nn.InstanceNorm, **kw)
    if mask is not None:
      mask = None      # keep group/instance statistics unmasked
    with sut(kind):
      v = unfreeze(m.init(KEY(0), jnp.asarray(x)))
      if v.get('params'):
        v = {'params': randomize(v['params'], rng)}
      y = m.apply(v, jnp.asarray(x))
    xg = x.reshape(shape[:-1] + (G, C // G))
    red = tuple(range(1, r - 1)) + (r,)
    mean, var = R.moments(xg, red)
    ref = ((xg - mean) / np.sqrt(var + eps)).reshape(shape)
    p = v.get('params', {})
    if us:
      ref = ref * np.asarray(p['scale'])
    if ub:
      ref = ref + np.asarray(p['bias'])
    require(close(y, ref, dict(rtol=1e-7, atol=1e-8)), lambda: f'{kind} norm '
            f'(groups={G}) differs from per-example per-group statistics')
    ctx.note(labels=[kind], nontrivial=(kind == 'group' and G not in (1, C))
             or kind == 'instance')
    return
  # BatchNorm
  mom = case['momentum']
  feat, feat_spelled = feature_axes(list(range(1, r)))
  red = tuple(a for a in range(r) if a not in feat)
  fshape = tuple(shape[a] for a in feat)
  if mask is not None:
    keep = np.asarray(mask, float).sum(axis=red, keepdims=True)
    mask = np.where(keep == 0, True, mask)
  mt = f64(nn.BatchNorm, use_running_average=False, momentum=mom,
           axis=feat_spelled, use_fast_variance=case['fast'], **kw)
  mi = f64(nn.BatchNorm, use_running_average=True, momentum=mom,
           axis=feat_spelled, **kw)
  with sut('BatchNorm'):
    v = unfreeze(mt.init(KEY(0), jnp.asarray(x)))
    require(np.shape(v['batch_stats']['mean']) == fshape, lambda: 'BatchNorm('
            f'axis={feat_spelled}) running mean has shape '
            f'{np.shape(v["batch_stats"]["mean"])}, feature axes {feat} of '
            f'{shape} have sizes {fshape}')
    v['batch_stats'] = {
        'mean': jnp.asarray(rnd(rng, fshape)),
        'var': jnp.asarray(np.abs(rnd(rng, fshape)) + 0.5)}
    if v.get('params'):
      v['params'] = randomize(v['params'], rng)
    y, upd = mt.apply(v, jnp.asarray(x), mask=None if mask is None else
                      jnp.asarray(mask), mutable=['batch_stats'])
    yi, updi = mi.apply(v, jnp.asarray(x), mutable=['batch_stats'])
  mean, var = R.moments(x, red, mask)
  finish(mt, v, y, mean, var, f'BatchNorm(train, axis={feat_spelled})',
         feat=feat)
  old_m, old_v = np.asarray(v['batch_stats']['mean']), np.asarray(
      v['batch_stats']['var'])
  require(close(upd['batch_stats']['mean'], mom * old_m + (1 - mom) *
                np.asarray(mean).reshape(fshape), dict(rtol=1e-7, atol=1e-8)),
          lambda: f'running mean != {mom}*old + {1 - mom}*batch '
          f'(axis={feat_spelled})')
  require(close(upd['batch_stats']['var'], mom * old_v + (1 - mom) *
                np.asarray(var).reshape(fshape), dict(rtol=1e-7, atol=1e-8)),
          lambda: f'running var != {mom}*old + {1 - mom}*batch '
          f'(axis={feat_spelled})')
  finish(mi, v, yi, old_m.reshape(bshape(feat)), old_v.reshape(bshape(feat)),
         f'BatchNorm(inference, axis={feat_spelled})', feat=feat)
  require(close(updi['batch_stats']['mean'], old_m, dict(rtol=0, atol=0))
          and close(updi['batch_stats']['var'], old_v, dict(rtol=0, atol=0)),
          'inference mode changed the running statistics')
  ctx.note(labels=['batch', f'm{mom}', f'feat{len(feat)}'], nontrivial=True)


# ----------------------------------------------------------------------------
@clause('dropout',
        strategy=lambda: st.fixed_dictionaries({
            'rate': st.sampled_from([0.0, 0.1, 0.5, 0.9, 1.0]),
            'deterministic': st.booleans(),
            'bdims': st.sampled_from([(), (0,), (1,), (-1,), (-2,), [0],
                                      (0, -1)]),
            'seed': st.integers(0, 2**16), 'api': st.sampled_from(
                ['linen', 'nnx'])}),
        quick=200, thorough=6000, quick_shards=4, shrink=False,
        rule='Dropout (Linen and NNX): identity when deterministic or rate 0, '
        'zeros at rate 1, otherwise every element is 0 or x/(1-rate); the zero '
        'pattern is the same for two different inputs under one key and '
        'differs between keys; broadcast_dims (positive or negative, tuple '
        'or list) make the mask constant along those dims; keep frequency within 6 sigma over 4096+ elements; non-'
        'trivial = 0 < rate < 1 and not deterministic')
def dropout(case, ctx):
  rate, det, bdims = case['rate'], case['deterministic'], case['bdims']
  rng = np.random.default_rng(case['seed'])
  shape = (64, 64)
  x1 = (np.abs(rnd(rng, shape)) + 0.5).astype(np.float32)
  x2 = (np.abs(rnd(rng, shape)) + 0.5).astype(np.float32)
  k1, k2 = KEY(case['seed']), KEY(case['seed'] + 1)
  if case['api'] == 'linen':
    if case['seed'] % 2:
      m = nn.Dropout(rate=rate, broadcast_dims=bdims, deterministic=det)
      run = lambda x, k: np.asarray(m.apply({}, jnp.asarray(x),
                                            rngs={'dropout': k}))
    else:
      m = nn.Dropout(rate=rate, broadcast_dims=bdims)
      run = lambda x, k: np.asarray(m.apply({}, jnp.asarray(x),
                                            deterministic=det,
                                            rngs={'dropout': k}))
  else:
    def run(x, k):
      # the flag at construction, or the opposite at construction and the
      # wanted value at call time (call time wins)
      if case['seed'] % 2:
        mm = nnx.Dropout(rate=rate, broadcast_dims=bdims, deterministic=det,
                         rngs=nnx.Rngs(dropout=k))
        return np.asarray(mm(jnp.asarray(x)))
      mm = nnx.Dropout(rate=rate, broadcast_dims=bdims,
                       deterministic=not det, rngs=nnx.Rngs(dropout=k))
      return np.asarray(mm(jnp.asarray(x), deterministic=det))
  with sut('Dropout'):
    y1, y2, y3 = run(x1, k1), run(x2, k1), run(x1, k2)
  if det or rate == 0.0:
    require(np.array_equal(y1, x1), 'Dropout must be the identity when '
            'deterministic or rate == 0')
  elif rate == 1.0:
    require(not y1.any(), 'Dropout(rate=1) must return zeros')
  else:
    z1, z2, z3 = y1 == 0, y2 == 0, y3 == 0
    require(np.allclose(y1[~z1], x1[~z1] / (1 - rate), rtol=1e-5),
            'surviving elements are not scaled by 1/(1-rate)')
    require(np.array_equal(z1, z2), 'the mask depends on the data (same key, '
            'different inputs give different zero patterns)')
    pos = sorted({bd % 2 for bd in bdims})
    if len(pos) < 2:
      require(not np.array_equal(z1, z3), 'different keys give the same mask')
    for bd in bdims:
      require((z1 == np.take(z1, [0], axis=bd)).all(), lambda: f'mask is not '
              f'constant along broadcast dim {bd}')
    if len(pos) == 2:
      ctx.note(labels=['all-dims-broadcast'])
      return
    n = z1.size if not pos else z1.shape[1 - pos[0]]
    keep = 1.0 - (z1.mean() if not pos else np.take(z1, 0, axis=pos[0]
                                                    ).mean())
    sigma = np.sqrt(rate * (1 - rate) / n)
    require(abs(keep - (1 - rate)) <= 6 * sigma + 1e-9, lambda: f'keep '
            f'frequency {keep} outside 6 sigma of {1 - rate} (n={n})')
  ctx.note(labels=[case['api'], f'rate{rate}'],
           nontrivial=0 < rate < 1 and not det)


# ----------------------------------------------------------------------------
@clause('linen_vs_nnx',
        strategy=lambda: st.fixed_dictionaries({
            'layer': st.sampled_from(['linear', 'general', 'conv', 'layernorm',
                                      'rmsnorm', 'groupnorm', 'batchnorm',
                                      'embed', 'convT']),
            'd': st.integers(1, 4), 'f': st.integers(1, 4),
            'k': st.integers(1, 3), 's': st.integers(1, 2),
            'padding': st.sampled_from(['SAME', 'VALID', 'CIRCULAR', 'CAUSAL']),
            'use_bias': st.booleans(), 'train': st.booleans(),
            # where the train / inference flag is given: constructor, call
            # time only, or call time overriding the constructor (NNX)
            'flag_at': st.sampled_from(['ctor', 'call', 'override']),
            # bit set of non-default options shared by both APIs
            'opt': st.integers(0, 63),
            'seed': st.integers(0, 2**16)}),
        quick=300, thorough=12000, quick_shards=8, thorough_shards=16,
        x64=True, shrink=False,
        rule='the same random parameters are copied from the Linen layer into '
        'the NNX layer (Linear, LinearGeneral, Conv, ConvTranspose, LayerNorm,'
        ' RMSNorm, GroupNorm, BatchNorm train/inference, Embed incl. attend), '
        'with non-default options given identically to both (grouping, '
        'dilation, mask, padding spellings, epsilon, use_scale, '
        'use_fast_variance, reduction_axes, group_size, momentum): outputs and '
        'state updates agree to 1e-9; non-trivial = layer has >=2 parameters')
def linen_vs_nnx(case, ctx):
  rng = np.random.default_rng(case['seed'])
  d, f, k, s = case['d'], case['f'], case['k'], case['s']
  ub = case['use_bias']
  layer = case['layer']
  rn = nnx.Rngs(0)
  dt = dict(dtype=jnp.float64, param_dtype=jnp.float64)
  def setv(var, val):
    require(tuple(var.value.shape) == tuple(np.shape(val)), lambda: 'NNX '
            f'parameter shape {var.value.shape} != Linen {np.shape(val)}')
    var.value = jnp.asarray(val)
  opt = case.get('opt', 0)
  o = {}            # options given identically to both layers
  if layer in ('linear', 'general'):
    x = rnd(rng, (2, 3, d))
    if layer == 'linear':
      lm = nn.Dense(f, use_bias=ub, **dt)
      nm = nnx.Linear(d, f, use_bias=ub, rngs=rn, **dt)
    else:
      ax = (-2, -1) if opt & 1 else (1, 2)
      lm = nn.DenseGeneral((f, 2), axis=ax, use_bias=ub, **dt)
      nm = nnx.LinearGeneral((3, d), (f, 2), axis=ax, use_bias=ub,
                             rngs=rn, **dt)
  elif layer in ('conv', 'convT'):
    g = 2 if (opt & 1 and layer == 'conv') else 1
    cin, fo = d * g, f * g
    x = rnd(rng, (2, 5, cin))
    pad = case['padding']
    if layer == 'conv':
      if opt & 2 and pad in ('SAME', 'VALID'):
        pad = [1, [(1, 2)], (2,)][opt % 3]      # int / pairs / per-dim int
      o = dict(strides=(s,) if pad != 'CIRCULAR' else 1, padding=pad,
               use_bias=ub, feature_group_count=g)
      if opt & 4:
        o['kernel_dilation'] = 2 if opt & 8 else (2,)
      if opt & 16:
        o['mask'] = jnp.asarray(rng.integers(0, 3, size=(k, cin // g, fo)
                                             ).astype(np.float64) * 0.5)
      lm = nn.Conv(fo, (k,), **o, **dt)
      nm = nnx.Conv(cin, fo, (k,), rngs=rn, **o, **dt)
    else:
      pad = pad if pad in ('SAME', 'VALID') else 'SAME'
      o = dict(strides=(s,), padding=pad, use_bias=ub)
      if opt & 4:
        o['kernel_dilation'] = (2,)
      if opt & 8:
        o['transpose_kernel'] = True
      lm = nn.ConvTranspose(fo, (k,), **o, **dt)
      nm = nnx.ConvTranspose(cin, fo, (k,), rngs=rn, **o, **dt)
  elif layer == 'layernorm':
    x = rnd(rng, (2, 3, d))
    o = dict(use_bias=ub)
    if opt & 1:
      o['epsilon'] = 1e-2
    if opt & 2:
      o['use_scale'] = False
    if opt & 4:
      o['use_fast_variance'] = False
    if opt & 8:
      o['reduction_axes'] = (-2, -1) if opt & 16 else (1, 2)
    lm = nn.LayerNorm(**o, **dt)
    nm = nnx.LayerNorm(d, rngs=rn, **o, **dt)
  elif layer == 'rmsnorm':
    x = rnd(rng, (2, 3, d))
    if opt & 1:
      o['epsilon'] = 1e-2
    if opt & 2:
      o['use_scale'] = False
    if opt & 8:
      o['reduction_axes'] = (-2, -1)
    lm = nn.RMSNorm(**o, **dt)
    nm = nnx.RMSNorm(d, rngs=rn, **o, **dt)
  elif layer == 'groupnorm':
    x = rnd(rng, (2, 3, 2 * d))
    o = dict(use_bias=ub)
    if opt & 1:
      o.update(num_groups=None, group_size=d)     # the same two groups
    else:
      o['num_groups'] = 2
    if opt & 2:
      o['epsilon'] = 1e-2
    if opt & 4:
      o['use_scale'] = False
    lm = nn.GroupNorm(**o, **dt)
    nm = nnx.GroupNorm(2 * d, rngs=rn, **o, **dt)
  elif layer == 'batchnorm':
    x = rnd(rng, (4, d))
    ura = not case['train']
    fa = case.get('flag_at', 'ctor')
    # linen accepts the flag in exactly one place; for NNX the call-time
    # value takes precedence over the attribute (documented)
    o = dict(momentum=0.8 if opt & 1 else 0.3, use_bias=ub)
    if opt & 2:
      o['epsilon'] = 1e-2
    if opt & 4:
      o['use_scale'] = False
    if opt & 8:
      o['use_fast_variance'] = False
    lm = nn.BatchNorm(use_running_average=ura if fa == 'ctor' else None,
                      **o, **dt)
    nm = nnx.BatchNorm(d, use_running_average={'ctor': ura, 'call': False,
                                               'override': not ura}[fa],
                       rngs=rn, **o, **dt)
    call_kw = {} if fa == 'ctor' else {'use_running_average': ura}
  else:
    x = rng.integers(0, d, size=(2, 3))
    lm = nn.Embed(d, f, **dt)
    nm = nnx.Embed(d, f, rngs=rn, **dt)
  xj = jnp.asarray(x)
  if layer != 'batchnorm':
    call_kw = {}
  with sut('linen init'):
    v = unfreeze(lm.init(KEY(0), xj, **call_kw))
  if v.get('params'):
    v['params'] = randomize(v['params'], rng)
  if 'batch_stats' in v:
    v['batch_stats'] = {'mean': jnp.asarray(rnd(rng, (d,))),
                        'var': jnp.asarray(np.abs(rnd(rng, (d,))) + 0.5)}
  with sut('copy params'):
    for name, val in v.get('params', {}).items():
      setv(getattr(nm, name), val)
    for name, val in v.get('batch_stats', {}).items():
      setv(getattr(nm, name), val)
  if layer != 'batchnorm':
    call_kw = {}
  with sut('apply'):
    if 'batch_stats' in v:
      yl, upd = lm.apply(v, xj, mutable=['batch_stats'], **call_kw)
    else:
      yl, upd = lm.apply(v, xj), {}
    before_n = {p_: np.asarray(v_.value).copy() for p_, v_ in
                nnx.to_flat_state(nnx.state(nm, nnx.Param))} if hasattr(
                    nnx, 'to_flat_state') else {}
    yn = nm(xj, **call_kw)
    after_n = {p_: np.asarray(v_.value) for p_, v_ in
               nnx.to_flat_state(nnx.state(nm, nnx.Param))} if before_n else {}
    require(all(np.array_equal(before_n[p_], after_n[p_]) for p_ in before_n),
            lambda: f'{layer}: a forward pass changed the NNX layer\'s own '
            f'parameters (options {sorted(o)}); the Linen layer has no such '
            'state update')
    if layer != 'batchnorm':
      yn2 = nm(xj, **call_kw)
      require(close(yn, yn2, dict(rtol=0, atol=0)), lambda: f'{layer}: the '
              'second call of the same NNX layer gives a different output')
  require(close(yl, yn), lambda: f'{layer}: NNX output differs from Linen on '
          f'the same parameters; max diff '
          f'{np.max(np.abs(np.asarray(yl) - np.asarray(yn))) if np.shape(yl) == np.shape(yn) else (np.shape(yl), np.shape(yn))}')
  if 'batch_stats' in v:
    require(close(upd['batch_stats']['mean'], nm.mean.value) and close(
        upd['batch_stats']['var'], nm.var.value),
            'BatchNorm: NNX running statistics differ from Linen')
  if layer == 'embed' or layer not in ('linear', 'general', 'conv', 'convT',
                                       'layernorm', 'rmsnorm', 'groupnorm',
                                       'batchnorm'):
    q = jnp.asarray(rnd(rng, (3, f)))
    with sut('attend'):
      al = lm.apply(v, q, method='attend')
      an = nm.attend(q)
    require(close(al, an), 'Embed.attend: NNX differs from Linen')
  ctx.note(labels=[layer] + sorted(k_ for k_ in o if k_ not in (
      'use_bias', 'strides', 'padding', 'feature_group_count')),
           nontrivial=len(jax.tree_util.tree_leaves(
               v.get('params', {}))) >= 2)
