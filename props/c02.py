"""C02 — variable tree mirrors the module tree; init/apply/shape-only agree."""
from __future__ import annotations

import numpy as np
from hypothesis import strategies as st

from harness.core import begin, clause, Violation, sut, require, expect_raises
from harness import linen_dsl as L

import jax
import jax.numpy as jnp
import flax
import flax.linen as nn
from flax import errors as ferrors
from flax.core import freeze, unfreeze

begin('C02')

ASSUMPTIONS = [
    'programs are those of the harness DSL; the expected tree comes from an '
    'independent walker implementing the documented naming rules (explicit '
    'name, <Class>_<n> per parent and class, setup attribute / attr_i / '
    'attr_key names)',
]

OBS = ('intermediates', 'aux', 'perturbations')


def shapes(v):
  return {c: {p: (tuple(np.shape(l)), str(jnp.asarray(l).dtype))
              for p, l in L.flat(v[c]).items()} for c in v}


def out_eq(a, b):
  a, b = np.asarray(a), np.asarray(b)
  return a.dtype == b.dtype and a.shape == b.shape and a.tobytes() == b.tobytes()


def tree_eq(a, b):
  fa, fb = L.flat(a), L.flat(b)
  return set(fa) == set(fb) and all(out_eq(fa[k], fb[k]) for k in fa)


def depth(prog):
  return 1 + max([depth(o['prog']) for o in prog['ops'] if o['op'] == 'sub']
                 + [0])


def has_sibling_pair(prog):
  autos = {}
  for o in prog['ops']:
    if o['op'] in ('dense', 'sub') and o.get('name') is None:
      k = 'Dense' if o['op'] == 'dense' else L.class_name(o['prog'])
      autos[k] = autos.get(k, 0) + 1
  if any(v >= 2 for v in autos.values()):
    return True
  return any(has_sibling_pair(o['prog']) for o in prog['ops']
             if o['op'] == 'sub')


def c02_case(allow=('counter', 'stat', 'tanh', 'shared')):
  return L.case_strategy(allow=allow, max_depth=3, max_ops=5)


@clause('structure_and_roundtrip', strategy=c02_case, quick=500,
        thorough=30000, quick_shards=8, thorough_shards=16,
        rule='generated clash-free programs (depth<=4, explicit/auto names, '
        'compact+setup, list/dict setup attributes, children called 1-3 times,'
        ' reused, shared): init tree == independent expected tree (paths, '
        'shapes, dtypes); apply(init_vars) needs no rng, reproduces init\'s '
        'output (stateless programs) and with mutable=True returns the same '
        'structure; module.bind(v).unbind() is again a matching (module, '
        'variables) pair; lazy_init / eval_shape(init) / jit(init) agree; non-'
        'trivial = depth>=2 and (auto-named sibling pair of one class, or a '
        're-called/shared child)')
def structure_and_roundtrip(case, ctx):
  case = L.normalize_case(case)
  mod = L.make_root(case)
  x = L.make_input(case)
  key = jax.random.key(case['seed'])
  exp = L.expected_tree(case)
  with sut('init_with_output'):
    y0, v = mod.init_with_output(key, x)
  got = shapes(v)
  require(got == exp, lambda: f'init tree differs from the expected tree:\n '
          f'got      {got}\n expected {exp}')
  stateful = L.uses(case['prog'], ('counter', 'stat'), case)
  # (a,b) apply needs no further initialisation and no params rng
  with sut('apply(init variables)'):
    y1 = mod.apply(v, x)
  if not stateful:
    require(out_eq(y0, y1), 'apply(init_vars, x) != output of init')
  # (d) mutable=True: nothing created, dropped or renamed
  with sut('apply(mutable=True)'):
    y2, upd = mod.apply(v, x, mutable=True)
  require(shapes(upd) == exp, lambda: f'apply(mutable=True) changed the tree '
          f'structure: {shapes(upd)} vs {exp}')
  require(tree_eq({'params': upd.get('params', {})},
                  {'params': v.get('params', {})}),
          'apply(mutable=True) changed parameter values')
  # frozen variables behave the same
  with sut('apply(FrozenDict)'):
    y3 = mod.apply(freeze(v), x)
  require(out_eq(y1, y3), 'FrozenDict variables give a different output')
  # bind / unbind of the whole tree: the unbound module (sharing between
  # nested sub-modules included) and its variables are again a matching pair
  with sut('bind(...).unbind()'):
    m2, v2 = mod.bind(v).unbind()
    y4 = m2.apply(v2, x)
  require(shapes(unfreeze(v2)) == exp, lambda: f'unbind() returned variables '
          f'{shapes(unfreeze(v2))}, bound with {exp}')
  require(out_eq(y1, y4), 'module.bind(v).unbind() applied to its variables '
          'computes something else than module.apply(v)')
  # shape-only initialisation
  with sut('eval_shape(init)'):
    abs_v = jax.eval_shape(lambda k, xx: mod.init(k, xx), key, x)
  got_abs = {c: {p: (tuple(l.shape), str(l.dtype))
                 for p, l in L.flat(abs_v[c]).items()} for c in abs_v}
  require(got_abs == exp, lambda: f'eval_shape(init) tree {got_abs} != {exp}')
  # lazy_init is documented to reject variables whose initial value depends
  # on the (shape-only) inputs: running statistics do
  if not L.uses(case['prog'], ('stat',), case):
    with sut('lazy_init'):
      lz = mod.lazy_init(key, jax.ShapeDtypeStruct(x.shape, x.dtype))
    got_lz = {c: {p: (tuple(l.shape), str(l.dtype))
                  for p, l in L.flat(lz[c]).items()} for c in lz}
    require(got_lz == exp, lambda: f'lazy_init tree {got_lz} != {exp}')
    ctx.note(labels=['lazy_init'])
  with sut('jit(init)'):
    vj = jax.jit(lambda k, xx: mod.init(k, xx))(key, x)
  require(shapes(vj) == exp, 'jit(init) tree differs')
  fj, fv = L.flat(vj), L.flat(v)
  # (values are not part of the statement for shape-only initialisation;
  # eager and compiled float32 arithmetic round differently, and deep
  # programs amplify that, so this is a loose sanity check only)
  for p in fv:
    a_, b_ = np.asarray(fj[p], np.float64), np.asarray(fv[p], np.float64)
    scale = max(1.0, float(np.max(np.abs(b_))) if b_.size else 1.0)
    require(np.allclose(a_, b_, rtol=1e-2, atol=1e-2 * scale),
            f'jit(init) value differs at {p}')
  recalled = any(o.get('calls', 1) > 1 for o in L.collect(case['prog'], 'sub',
                                                          case)) \
      or L.uses(case['prog'], ('reuse',), case) or bool(case.get('shared'))
  ctx.note(labels=[f'depth{depth(case["prog"])}',
                   'shared' if case.get('shared') else 'noshared',
                   'stateful' if stateful else 'stateless',
                   case['prog']['style']],
           nontrivial=depth(case['prog']) >= 2 and (
               has_sibling_pair(case['prog']) or recalled))


# ----------------------------------------------------------------------------
# module instances shared between nested parents (as dataclass attributes)
# ----------------------------------------------------------------------------
class SWrap(nn.Module):
  inner: nn.Module
  scale: float = 1.0

  @nn.compact
  def __call__(self, x):
    b = self.param('b', nn.initializers.normal(1.0), (x.shape[-1],))
    return self.inner(x) * self.scale + b


class SPair(nn.Module):
  a: nn.Module
  b: nn.Module

  def __call__(self, x):
    return self.a(x) + 0.5 * self.b(jnp.tanh(x))


def share_tree(depth):
  leaf = st.integers(0, 2).map(lambda j: {'leaf': j})
  if depth == 0:
    return leaf
  inner = share_tree(depth - 1)
  return st.one_of(
      leaf,
      st.tuples(inner, st.sampled_from([1.0, 2.0])).map(
          lambda t: {'wrap': t[0], 'scale': t[1]}),
      st.tuples(inner, inner).map(lambda t: {'pair': list(t)}))


def build_share(node, pool):
  if 'leaf' in node:
    return pool[node['leaf']]
  if 'wrap' in node:
    return SWrap(build_share(node['wrap'], pool), node['scale'])
  return SPair(build_share(node['pair'][0], pool),
               build_share(node['pair'][1], pool))


def leaf_paths(node, path=()):
  if 'leaf' in node:
    return [(path, node['leaf'])]
  if 'wrap' in node:
    return leaf_paths(node['wrap'], path + ('inner',))
  return leaf_paths(node['pair'][0], path + ('a',)) + leaf_paths(
      node['pair'][1], path + ('b',))


@clause('shared_instances',
        strategy=lambda: st.tuples(share_tree(3), st.integers(1, 3),
                                   st.integers(0, 2**16)),
        quick=200, thorough=10000, quick_shards=8, thorough_shards=16,
        shrink=False,
        rule='trees (depth <= 3) of wrapper / pair modules whose leaves are '
        'drawn from a pool of three Dense instances, so one instance may be '
        'an attribute of several nested parents: the shared instance has one '
        'set of parameters; module.bind(v).unbind(), module.clone() and '
        'module.copy() are again matching (module, variables) pairs that '
        'compute what the bound module computes; re-initialising the unbound '
        'module reproduces the variables; without sharing, every attribute '
        'sub-module obtained with bind(v).<path>.unbind() computes on its own '
        'subtree what it computes in place; non-trivial = an instance is shared '
        'between two parents below the root')
def shared_instances(case, ctx):
  tree, D, seed = case
  pool = [nn.Dense(D) for _ in range(3)]
  top = build_share({'wrap': tree, 'scale': 1.0}, pool)
  x = jnp.asarray(np.random.default_rng(seed).normal(size=(2, D)),
                  jnp.float32)
  key = jax.random.key(seed)
  with sut('init'):
    v = top.init(key, x)
  used = {}
  for pth, j in leaf_paths(tree, ('inner',)):
    used.setdefault(j, []).append(pth)
  n_dense = sum(1 for p in L.flat(unfreeze(v)['params']) if p[-1] == 'kernel')
  require(n_dense == len(used), lambda: f'{len(used)} distinct Dense '
          f'instances are used but init created {n_dense} kernels: '
          f'{sorted(L.flat(unfreeze(v)["params"]))}')
  with sut('apply'):
    y0 = top.apply(v, x)
  with sut('bind(v).unbind()'):
    m2, v2 = top.bind(v).unbind()
    y2 = m2.apply(v2, x)
  require(shapes(unfreeze(v2)) == shapes(unfreeze(v)), 'unbind() changed the '
          'variable tree')
  require(out_eq(y0, y2), 'bind(v).unbind() applied to its variables computes '
          'something else')
  with sut('init(unbound module)'):
    v3 = m2.init(key, x)
  require(tree_eq(unfreeze(v3), unfreeze(v)), lambda: 're-initialising the '
          f'unbound module gives {shapes(unfreeze(v3))}, the original '
          f'{shapes(unfreeze(v))}')
  with sut('clone / copy'):
    require(out_eq(top.clone().apply(v, x), y0), 'clone() computes something '
            'else on the same variables')
    require(out_eq(top.copy().apply(v, x), y0), 'copy() computes something '
            'else on the same variables')
  # every attribute sub-module, unbound on its own
  def attr_paths(node, path):
    out = [path] if path else []
    if 'wrap' in node:
      out += attr_paths(node['wrap'], path + ('inner',))
    elif 'pair' in node:
      out += attr_paths(node['pair'][0], path + ('a',))
      out += attr_paths(node['pair'][1], path + ('b',))
    return out
  bound = top.bind(v)
  any_shared = any(len(ps) >= 2 for ps in used.values())
  # a shared instance belongs to the parent that binds it first; reaching
  # into a bound tree attribute by attribute binds in another order than
  # apply does, so sub-modules are taken out one by one only when nothing is
  # shared (the whole-tree laws above cover sharing)
  for pth in ([] if any_shared else
              attr_paths({'wrap': tree, 'scale': 1.0}, ())):
    sub = bound
    for a in pth:
      sub = getattr(sub, a)
    with sut(f'bind(v).{".".join(pth)}'):
      y_in = sub(x)
      cm, cv = sub.unbind()
      y_out = cm.apply(cv, x)
    require(out_eq(y_in, y_out), lambda: f'sub-module at {pth} obtained with '
            'unbind() computes something else on its own variable subtree')
  shared_deep = any(len(ps) >= 2 and sum(len(p) >= 3 for p in ps) >= 2
                    for ps in used.values())
  ctx.note(labels=[f'instances{len(used)}',
                   'shared' if any(len(ps) >= 2 for ps in used.values())
                   else 'unshared'], nontrivial=shared_deep)


# ----------------------------------------------------------------------------
# shape-only init with a caller-chosen `mutable` filter
# ----------------------------------------------------------------------------
def spec_tree(v):
  """{collection: {path: (shape, dtype)}} for arrays, ShapeDtypeStructs and the
  tuples that sow stores."""
  out = {}
  for c in v:
    leaves = jax.tree_util.tree_flatten_with_path(unfreeze(v[c]))[0]
    out[c] = {jax.tree_util.keystr(kp): (tuple(l.shape), str(l.dtype))
              for kp, l in leaves}
  return out


def init_filter_case():
  return st.tuples(
      L.case_strategy(allow=('counter', 'sow', 'tanh', 'shared'),
                      max_depth=3, max_ops=5, styles=('compact',)),
      st.sampled_from(['default', 'true', 'list', 'list', 'tuple', 'deny',
                       'deny']),
      st.lists(st.sampled_from(L.SOW_COLS), max_size=2, unique=True))


@clause('shape_only_init_filters', strategy=init_filter_case, quick=250,
        thorough=12000, quick_shards=4, thorough_shards=16,
        rule='programs with parameters, counters and sow x the `mutable` '
        'argument of init (default, True, list/tuple of params + state + a '
        'subset of the sown collections, DenyList of sown collections): '
        'eval_shape(init), jit(init) and lazy_init called with the same '
        '`mutable` return the collections, paths, shapes and dtypes of '
        'concrete init (lazy_init may instead raise LazyInitError when a sown, '
        'input-dependent value is part of the result); non-trivial = the '
        'program sows into a collection the '
        'filter excludes or a non-default filter includes')
def shape_only_init_filters(case, ctx):
  case, form, sown = case
  case = L.normalize_case(case)
  mod = L.make_root(case)
  x = L.make_input(case)
  key = jax.random.key(case['seed'])
  base = ['params'] + list(L.STATE_COLS)
  if form == 'default':
    kw = {}
  elif form == 'true':
    kw = {'mutable': True}
  elif form == 'list':
    kw = {'mutable': base + list(sown)}
  elif form == 'tuple':
    kw = {'mutable': tuple(base + list(sown))}
  else:
    kw = {'mutable': flax.core.DenyList(list(sown) if len(sown) != 1
                                        else sown[0])}
  with sut(f'init({kw})'):
    v = mod.init(key, x, **kw)
  ref = spec_tree(v)
  with sut(f'eval_shape(init, {kw})'):
    av = jax.eval_shape(lambda k, xx: mod.init(k, xx, **kw), key, x)
  require(spec_tree(av) == ref, lambda: f'eval_shape(init) with {kw} gives '
          f'{spec_tree(av)}, concrete init gives {ref}')
  with sut(f'jit(init, {kw})'):
    jv = jax.jit(lambda k, xx: mod.init(k, xx, **kw))(key, x)
  require(spec_tree(jv) == ref, lambda: f'jit(init) with {kw} gives '
          f'{spec_tree(jv)}, concrete init gives {ref}')
  sows = {o['col'] for o in L.collect(case['prog'], 'sow', case)}
  present = sows & set(ref)
  spec = jax.ShapeDtypeStruct(x.shape, x.dtype)
  if present:
    # sown values depend on the input values: lazy_init is documented to
    # reject them (LazyInitError); if it returns, it must agree
    try:
      lz = mod.lazy_init(key, spec, **kw)
    except ferrors.LazyInitError:
      lz = None
    except Exception as e:  # noqa
      raise Violation(f'lazy_init with {kw}: unexpected '
                      f'{type(e).__name__}: {e}'[:400]) from None
  else:
    with sut(f'lazy_init({kw})'):
      lz = mod.lazy_init(key, spec, **kw)
  if lz is not None:
    require(spec_tree(lz) == ref, lambda: f'lazy_init with {kw} gives '
            f'{spec_tree(lz)}, concrete init with the same arguments gives '
            f'{ref}')
  ctx.note(labels=[form, 'sows' if sows else 'nosow',
                   'sown-present' if present else 'sown-absent'],
           nontrivial=bool(sows) and (bool(sows - set(ref)) or
                                      form not in ('default',)))


# ----------------------------------------------------------------------------
@clause('missing_or_misshaped',
        strategy=lambda: st.tuples(c02_case(allow=('counter', 'stat', 'tanh')),
                                   st.sampled_from(['leaf', 'subtree', 'shape',
                                                    'collection']),
                                   st.integers(0, 1000), st.booleans(),
                                   st.sampled_from(['false', 'true',
                                                    'params', 'state'])),
        quick=500, thorough=30000, quick_shards=4,
        rule='one leaf / one module subtree / one whole collection is removed '
        'from the init tree, or one dimension of one parameter is changed; '
        'apply must raise ScopeParamNotFoundError / ScopeCollectionNotFound / '
        'ScopeVariableNotFoundError / ScopeParamShapeError, a wrong shape also '
        'when params are mutable (never re-'
        'initialise, even when a params rng is supplied); non-trivial = the '
        'damaged entry is nested (path length>=2)')
def missing_or_misshaped(case, ctx):
  case, kind, pick, give_rng, mut = case
  case = L.normalize_case(case)
  mod = L.make_root(case)
  x = L.make_input(case)
  key = jax.random.key(case['seed'])
  with sut('init'):
    v = unfreeze(mod.init(key, x))
  fl = L.flat(v)
  paths = sorted(fl)
  if not paths:
    ctx.note(labels=['no-variables'])
    return
  p = paths[pick % len(paths)]
  def delete(tree, path):
    if len(path) == 1:
      del tree[path[0]]
      return
    delete(tree[path[0]], path[1:])
  if kind == 'leaf':
    delete(v, p)
    target = p
  elif kind == 'subtree':
    cut = p[:max(2, len(p) - 1)] if len(p) > 2 else p
    delete(v, cut)
    target = cut
  elif kind == 'collection':
    del v[p[0]]
    target = (p[0],)
  else:
    cands = [q for q in paths if q[0] == 'params' and np.ndim(fl[q]) >= 1]
    if not cands:
      ctx.note(labels=['no-shaped-param'])
      return
    q = cands[pick % len(cands)]
    old = np.asarray(fl[q])
    new = np.zeros((old.shape[0] + 1,) + old.shape[1:], old.dtype)
    node = v
    for k in q[:-1]:
      node = node[k]
    node[q[-1]] = jnp.asarray(new)
    target = q
  errs = (ferrors.ScopeParamNotFoundError, ferrors.ScopeCollectionNotFound,
          ferrors.ScopeVariableNotFoundError, ferrors.ScopeParamShapeError)
  rngs = {'params': jax.random.key(1)} if give_rng else None
  # a wrong shape must be rejected whatever is mutable; a *missing* variable
  # is legitimately created when its collection is mutable, so the removal
  # kinds are applied with the damaged collection immutable only
  if kind == 'shape':
    mutable = {'false': False, 'true': True, 'params': ['params'],
               'state': ['batch_stats', 'cache', 'counters']}[mut]
  else:
    mutable = False if target[0] == 'params' or mut != 'state' else [
        c for c in ('batch_stats', 'cache', 'counters') if c != target[0]]
  e = expect_raises(errs, lambda: mod.apply(v, x, rngs=rngs, mutable=mutable),
                    f'apply(mutable={mutable}) with {kind} damaged at {target}')
  if kind == 'shape':
    require(isinstance(e, ferrors.ScopeParamShapeError),
            lambda: f'wrong shape at {target} raised {type(e).__name__}')
  ctx.note(labels=[kind, 'rng' if give_rng else 'norng', f'mutable:{mut}'],
           nontrivial=len(target) >= 3)


# ----------------------------------------------------------------------------
@clause('submodule_locality',
        strategy=lambda: c02_case(allow=('counter', 'stat', 'tanh')),
        quick=400, thorough=20000, quick_shards=4,
        rule='every call of every nested sub-module is recorded (path, input, '
        'output) during apply; the sub-module constructed on its own and '
        'applied to exactly its own subtree of the variables reproduces the '
        'recorded output; for setup-style roots the child is also obtained '
        'via bind(...).attr.unbind(); non-trivial = >=2 distinct nested paths')
def submodule_locality(case, ctx):
  case = L.normalize_case(dict(case, shared=[]))
  mod = L.make_root(case)
  x = L.make_input(case)
  key = jax.random.key(case['seed'])
  with sut('init'):
    v = unfreeze(mod.init(key, x))
  L.TRACE.clear()
  L.TRACE_ON[0] = True
  try:
    with sut('apply'):
      y = mod.apply(v, x)
  finally:
    L.TRACE_ON[0] = False
  calls = list(L.TRACE)
  L.TRACE.clear()

  # map path -> program
  progs = {}
  def names(prog, path):
    counters, lst_pos = {}, 0
    for i, op in enumerate(prog['ops']):
      if op['op'] not in ('dense', 'sub'):
        continue
      if prog['style'] == 'setup':
        kind = op.get('attr', 'attr')
        if kind == 'list':
          n = f'lst_{lst_pos}'
          lst_pos += 1
        elif kind == 'dict':
          n = f'dct_k{i}'
        else:
          n = f'm{i}'
      else:
        n = op.get('name')
        if n is None:
          prefix = 'Dense' if op['op'] == 'dense' else L.class_name(op['prog'])
          c = counters.get(prefix, 0)
          counters[prefix] = c + 1
          n = f'{prefix}_{c}'
      if op['op'] == 'sub':
        progs[path + (n,)] = op['prog']
        names(op['prog'], path + (n,))
  names(case['prog'], ())

  def subtree(path):
    out = {}
    for c in v:
      node = v[c]
      ok = True
      for k in path:
        if isinstance(node, dict) and k in node:
          node = node[k]
        else:
          ok = False
          break
      if ok:
        out[c] = node
    return out

  seen_paths = set()
  for path, xin, yout in calls:
    if not path:
      continue
    require(path in progs, lambda: f'module called at unexpected path {path}; '
            f'known {sorted(progs)}')
    seen_paths.add(path)
    child = L.make_module(progs[path], case['dim'], parent=None)
    with sut('standalone child apply'):
      yc = child.apply(subtree(path), jnp.asarray(xin))
    require(np.allclose(np.asarray(yc), yout, rtol=1e-6, atol=1e-6),
            lambda: f'sub-module at {path} applied on its own subtree gives '
            f'a different result than inside its parent')
  # bind / unbind for setup-style roots
  if case['prog']['style'] == 'setup':
    with sut('bind'):
      bound = mod.bind(v)
    for i, op in enumerate(case['prog']['ops']):
      if op['op'] == 'sub' and op.get('attr', 'attr') == 'attr':
        with sut('unbind'):
          cm, cv = getattr(bound, f'm{i}').unbind()
        sub = subtree((f'm{i}',))
        require(tree_eq(cv, sub) or (not L.flat(cv) and not L.flat(sub)),
                lambda: f'unbind() variables of m{i} differ from the subtree')
        rec = [(xi, yo) for p, xi, yo in calls if p == (f'm{i}',)]
        for xi, yo in rec[:2]:
          with sut('unbound child apply'):
            yc = cm.apply(cv, jnp.asarray(xi))
          require(np.allclose(np.asarray(yc), yo, rtol=1e-6, atol=1e-6),
                  f'bind().m{i}.unbind() computes something else')
  ctx.note(labels=[case['prog']['style']], nontrivial=len(seen_paths) >= 2)


# ----------------------------------------------------------------------------
CLASH_KINDS = ['sub_sub', 'sub_var', 'var_sub', 'var_var', 'var_var_other_col',
               'explicit_vs_auto', 'dense_dense',
               # the first holder of the name is a sown / perturbation variable
               'sow_var', 'sow_sub', 'perturb_sub', 'perturb_var',
               'sow_var_other_col',
               # the name is already used (legally) in two collections when it
               # is declared a second time in one of them
               'two_cols_then_second', 'two_cols_then_first',
               'param_col_then_param']
# kinds whose first op the tree walker does not track as a name holder: the
# prediction is fixed by construction
FORCED = {'sow_var': True, 'sow_sub': True, 'perturb_sub': True,
          'perturb_var': True, 'sow_var_other_col': False}


def inject_clash(prog, kind):
  leaf = {'style': 'compact', 'cls': 'A', 'ops': [{'op': 'tanh'}]}
  sub = lambda name: {'op': 'sub', 'prog': leaf, 'name': name, 'calls': 1,
                      'attr': 'attr'}
  var = lambda col, name: {'op': 'counter', 'col': col, 'name': name}
  add = {
      'sub_sub': [sub('dup'), sub('dup')],
      'sub_var': [sub('dup'), var('cache', 'dup')],
      'var_sub': [var('cache', 'dup'), sub('dup')],
      'var_var': [var('cache', 'dup'), {'op': 'stat', 'col': 'cache',
                                        'name': 'dup', 'm': 0.5}],
      'var_var_other_col': [var('cache', 'dup'), var('batch_stats', 'dup')],
      'explicit_vs_auto': [sub('NodeA_0'), sub(None)],
      'dense_dense': [{'op': 'dense', 'name': 'dup', 'attr': 'attr'},
                      {'op': 'dense', 'name': 'dup', 'attr': 'attr'}],
      'sow_var': [{'op': 'sow', 'col': 'cache', 'name': 'dup'},
                  var('cache', 'dup')],
      'sow_sub': [{'op': 'sow', 'col': 'aux', 'name': 'dup'}, sub('dup')],
      'perturb_sub': [{'op': 'perturb', 'name': 'dup', 'dtype': None},
                      sub('dup')],
      'perturb_var': [{'op': 'perturb', 'name': 'dup', 'dtype': None},
                      var('perturbations', 'dup')],
      'sow_var_other_col': [{'op': 'sow', 'col': 'aux', 'name': 'dup'},
                            var('cache', 'dup')],
      'two_cols_then_second': [var('cache', 'dup'), var('batch_stats', 'dup'),
                               {'op': 'stat', 'col': 'batch_stats',
                                'name': 'dup', 'm': 0.5}],
      'two_cols_then_first': [var('cache', 'dup'), var('batch_stats', 'dup'),
                              {'op': 'stat', 'col': 'cache', 'name': 'dup',
                               'm': 0.5}],
      'param_col_then_param': [var('cache', 'dup'),
                               {'op': 'param', 'name': 'dup', 'shape': [2]},
                               {'op': 'param', 'name': 'dup', 'shape': [2]}],
  }[kind]
  return add


@clause('name_clashes',
        strategy=lambda: st.tuples(
            c02_case(allow=('counter', 'tanh')), st.sampled_from(CLASH_KINDS),
            st.integers(0, 3), st.integers(0, 5)),
        quick=400, thorough=20000, quick_shards=4,
        rule='two ops with clashing names (submodule/submodule, submodule/'
        'variable in both orders, two variables of one collection (the first '
        'holder of the name possibly a sown or perturbation variable), explicit '
        'name equal to a later auto-name, two Dense) are inserted at a random '
        'depth and position of a compact module; init must raise '
        'NameInUseError exactly when the independent walker predicts a clash '
        '(same name in different collections is legal); non-trivial = depth '
        'of insertion >= 1')
def name_clashes(case, ctx):
  case, kind, d, pos = case
  case = L.normalize_case(dict(case, shared=[]))
  *a, b = inject_clash(case['prog'], kind)

  def insert(prog, dd):
    """Returns (program, inserted?)."""
    if dd > 0:
      for i, o in enumerate(prog['ops']):
        if o['op'] == 'sub' and o['prog']['style'] == 'compact':
          inner, ok = insert(o['prog'], dd - 1)
          ops = list(prog['ops'])
          ops[i] = dict(o, prog=inner)
          return dict(prog, ops=ops), ok
    if prog['style'] != 'compact':
      return prog, False
    ops = list(prog['ops'])
    i = pos % (len(ops) + 1)
    ops = ops[:i] + list(a) + ops[i:] + [b]
    return dict(prog, ops=ops), True

  prog2, ok = insert(case['prog'], d)
  if not ok:
    ctx.note(labels=['not-compact'])
    return
  case2 = dict(case, prog=prog2)
  try:
    exp = L.expected_tree(case2)
    clash = False
  except L.Clash:
    clash = True
  if kind in FORCED and not clash:
    clash = FORCED[kind]
  mod = L.make_root(case2)
  x = L.make_input(case2)
  key = jax.random.key(case2['seed'])
  if clash:
    expect_raises(ferrors.NameInUseError, lambda: mod.init(key, x),
                  f'init with {kind} clash')
  else:
    with sut('init (no clash expected)'):
      v = mod.init(key, x)
    got = shapes(v)
    if kind in FORCED:
      # (sown entries are tuples: only the paths are compared)
      got = {c: set(t) for c, t in got.items()}
      exp = {c: set(t) for c, t in exp.items()}
    require(got == exp, lambda: f'{kind}: tree {got} != expected {exp}')
  ctx.note(labels=[kind, 'clash' if clash else 'legal'], nontrivial=d >= 1)


# ----------------------------------------------------------------------------
# Module.copy(): every copy of a template owns its variables
class TInner(nn.Module):
  width: int = 2
  deep: bool = False

  @nn.compact
  def __call__(self, x):
    y = nn.Dense(self.width, name='proj')(x)
    if self.deep:
      y = y + nn.Dense(self.width)(x)
    return y


class TBlock(nn.Module):
  """The sub-layers are handed in as attributes (bare, in a list, in a dict)."""
  inner: Any = None
  extra: Any = None

  @nn.compact
  def __call__(self, x):
    y = nn.tanh(self.inner(x))
    for m in (self.extra if isinstance(self.extra, (list, tuple)) else
              list(self.extra.values()) if isinstance(self.extra, dict) else
              []):
      y = y + 0.5 * m(x)
    return y


class TStack(nn.Module):
  template: Any = None
  depth: int = 2
  named: bool = False

  @nn.compact
  def __call__(self, x):
    for i in range(self.depth):
      c = self.template.copy(name=f'c{i}') if self.named else \
          self.template.copy()
      x = c(x)
    return x


@clause('template_copies',
        strategy=lambda: st.fixed_dictionaries({
            'width': st.integers(1, 3), 'depth': st.integers(1, 3),
            'deep': st.booleans(), 'extra': st.sampled_from(
                ['none', 'list', 'dict']),
            'named': st.booleans(),
            'where': st.sampled_from(['compact', 'sequential']),
            'seed': st.integers(0, 2**16)}),
        quick=150, thorough=4000, quick_shards=6, thorough_shards=16,
        shrink=False,
        rule='1-3 copies (Module.copy, auto-named or named) of a template '
        'block whose sub-layers are attributes (bare / list / dict), made '
        'inside a compact parent or handed to nn.Sequential: the variable '
        'tree has one subtree per copy with the block\'s full structure, init '
        '/ apply / eval_shape agree, each copy applied on its own subtree '
        'reproduces the parent\'s computation, and copies share no parameter; '
        'non-trivial = >=2 copies')
def template_copies(case, ctx):
  w, n = case['width'], case['depth']
  def make_block():
    extra = None
    if case['extra'] == 'list':
      extra = [TInner(w), TInner(w, True)]
    elif case['extra'] == 'dict':
      extra = {'a': TInner(w)}
    return TBlock(inner=TInner(w, case['deep']), extra=extra)
  rng = np.random.default_rng(case['seed'])
  x = jnp.asarray(rng.normal(size=(2, w)), jnp.float32)
  key = jax.random.key(case['seed'])
  blk = make_block()
  if case['where'] == 'compact':
    model = TStack(template=blk, depth=n, named=case['named'])
    names = [f'c{i}' if case['named'] else f'TBlock_{i}' for i in range(n)]
  else:
    model = nn.Sequential([blk.copy() for _ in range(n)])
    names = [f'layers_{i}' for i in range(n)]
  with sut('init'):
    y0, V = model.init_with_output(key, x)
  P = unfreeze(V)['params']
  with sut('standalone block init'):
    Ps = unfreeze(make_block().init(key, x))['params']
  one = shapes({'params': Ps})['params']
  want = {(nm,) + tuple(pth): v for nm in names for pth, v in one.items()}
  got = shapes({'params': P})['params']
  require(got == want, lambda: f'variable tree of {n} copies ({case["where"]}'
          f', extra={case["extra"]}) is {got}, expected one full subtree per '
          f'copy: {want}')
  with sut('apply / eval_shape'):
    y1 = model.apply(V, x)
    ab = jax.eval_shape(model.init, key, x)
  require(np.allclose(np.asarray(y0), np.asarray(y1), rtol=1e-5, atol=1e-6),
          'init and apply disagree')
  sd = lambda t: jax.tree_util.tree_map(lambda l: (tuple(l.shape),
                                                   str(l.dtype)), unfreeze(t))
  require(sd(ab) == sd(V), 'eval_shape(init) tree differs')
  h = x
  alone = make_block()
  for nm in names:
    with sut('copy applied on its own subtree'):
      h = alone.apply({'params': P[nm]}, h)
  require(np.shape(h) == np.shape(y1) and np.allclose(
      np.asarray(h), np.asarray(y1), rtol=1e-5, atol=1e-6),
          'chaining the copies, each on its own subtree, does '
          'not reproduce the parent\'s output')
  if n >= 2:
    ka = jax.tree_util.tree_leaves(P[names[0]])
    kb = jax.tree_util.tree_leaves(P[names[1]])
    require(not all(np.allclose(a, b) for a, b in zip(ka, kb) if np.ndim(a) == 2),
            'two copies were initialised with identical kernels (shared state)')
  ctx.note(labels=[case['where'], case['extra'], f'n{n}',
                   'named' if case['named'] else 'auto'], nontrivial=n >= 2)


# ----------------------------------------------------------------------------
# clashes that are first met while the variables already exist (apply / bind
# on restored or earlier-initialised variables; the clashing declaration sits
# in a branch init did not take)
class _LateClash(nn.Module):
  kind: str = 'var_var'
  depth: int = 0
  clash: bool = False

  @nn.compact
  def __call__(self, x):
    if self.depth > 0:
      return _LateClash(self.kind, self.depth - 1, self.clash,
                        name='inner')(x) + 1.0
    acc = self.variable('state', 'acc', lambda: jnp.zeros(()))
    y = nn.Dense(2, name='lin')(x)
    if self.clash:
      if self.kind == 'var_var':
        other = self.variable('state', 'acc', lambda: jnp.zeros(()))
        y = y * (1.0 + other.value)
      elif self.kind == 'sub_after_var':
        y = y + nn.Dense(2, name='acc')(x)
      elif self.kind == 'var_after_sub':
        other = self.variable('state', 'lin', lambda: jnp.zeros(()))
        y = y * (1.0 + other.value)
      elif self.kind == 'var_other_col':
        # same name in another collection: legal
        other = self.variable('aux', 'acc', lambda: jnp.ones(()))
        y = y * other.value
    if self.is_mutable_collection('state'):
      acc.value = acc.value + jnp.sum(y)
    return y


@clause('late_name_clashes',
        strategy=lambda: st.tuples(
            st.sampled_from(['var_var', 'sub_after_var', 'var_after_sub',
                             'var_other_col', 'none']),
            st.integers(0, 2), st.sampled_from(['apply', 'apply_mutable',
                                                'apply_all', 'bind',
                                                'bind_mutable']),
            st.integers(0, 2**16)),
        quick=120, thorough=3000, quick_shards=6, thorough_shards=16,
        shrink=False,
        rule='a module (nested 0-2 levels) initialised without a clash and '
        'then applied / bound (immutable, state mutable, everything mutable) '
        'with a branch that declares a second variable of the same collection '
        'and name, a submodule named like an existing variable, or a variable '
        'named like an existing submodule: NameInUseError, never silent '
        'sharing; the same name in another collection and the clash-free '
        'branch run and agree with the reference; non-trivial = a clash kind')
def late_name_clashes(case, ctx):
  kind, depth, how, seed = case
  x = jnp.asarray(np.random.default_rng(seed).normal(size=(2, 3)), jnp.float32)
  with sut('init'):
    v = unfreeze(_LateClash(kind, depth, False).init(jax.random.key(seed), x))
  if kind == 'var_other_col':
    node = v.setdefault('aux', {})
    for _ in range(depth):
      node = node.setdefault('inner', {})
    node['acc'] = jnp.ones(())
  clash = kind in ('var_var', 'sub_after_var', 'var_after_sub')
  mod = _LateClash(kind, depth, kind != 'none')
  mutable = {'apply': False, 'apply_mutable': ['state'], 'apply_all': True,
             'bind': False, 'bind_mutable': ['state']}[how]

  def run():
    if how.startswith('bind'):
      return mod.bind(v, mutable=mutable)(x)
    out = mod.apply(v, x, mutable=mutable)
    return out if mutable is False else out[0]
  if clash:
    expect_raises(ferrors.NameInUseError, run, f'{how} of a module whose '
                  f'apply-time branch has a {kind} clash (depth {depth})')
  else:
    with sut(f'{how} (no clash)'):
      y = run()
      y_ref = _LateClash('none', depth, False).apply(v, x)
    require(np.allclose(np.asarray(y), np.asarray(y_ref), atol=1e-6),
            f'{kind}: output differs from the clash-free module')
  ctx.note(labels=[kind, how, f'depth{depth}'], nontrivial=clash)
