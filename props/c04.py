"""C04 — NNX transforms keep Python reference semantics."""
from __future__ import annotations

import numpy as np
from hypothesis import strategies as st

from harness.core import begin, clause, Violation, sut, require, expect_raises
from harness import nnx_graph as G
from harness import nnx_mut as M

import jax
import jax.numpy as jnp
from flax import nnx

begin('C04')

ASSUMPTIONS = [
    'functions are straight-line mutation programs (harness/nnx_mut.py) that '
    'address objects by their position in the sorted traversal of the '
    'arguments; the same program runs eagerly on twin graph A and under the '
    'transform on twin graph B',
    'single device; values are small integers in float32 so eager and '
    'compiled arithmetic agree exactly (compared with rtol 1e-6)',
]

TRACES = []


def graph_for_transforms():
  # Variables of one shape so value programs broadcast trivially; no raw
  # arrays inside containers (they are immutable pytree leaves to NNX)
  return G.graph_strategy(max_nodes=4, max_vars=4, max_attrs=2, arrays=False,
                          var_shapes=([], [2]), hooks=True)


def compare_after(argsA, argsB, beforeA, beforeB, what):
  """argsA/argsB may be followed by the graph-valued results of the call: the
  combined root also checks sharing between results and arguments."""
  cA, cB = G.canon(tuple(argsA)), G.canon(tuple(argsB))
  require(cA == cB, lambda: f'{what}: argument (and result) graphs differ '
          f'after the call\n eager       {cA}\n transformed {cB}')
  nA, vA = M.numbering(argsA)
  nB, vB = M.numbering(argsB)
  for kind, afterA, afterB, befA, befB in (
      ('node', nA, nB, beforeA[0], beforeB[0]),
      ('Variable', vA, vB, beforeA[1], beforeB[1])):
    idxA = {id(o): i for i, o in enumerate(befA)}
    idxB = {id(o): i for i, o in enumerate(befB)}
    for j, (oa, ob) in enumerate(zip(afterA, afterB)):
      ia, ib = idxA.get(id(oa)), idxB.get(id(ob))
      require(ia == ib, lambda: f'{what}: {kind} #{j} of the result is '
              f'{"the caller\'s original #" + str(ia) if ia is not None else "a new object"}'
              f' when run eagerly but '
              f'{"the caller\'s original #" + str(ib) if ib is not None else "a new object (a copy)"}'
              f' under the transform')


def jit_case():
  return st.tuples(
      graph_for_transforms(),
      st.lists(st.integers(0, 5), min_size=1, max_size=2),     # which args
      M.program_strategy(structural=True, max_size=6),
      st.lists(st.tuples(st.integers(-3, 3),
                         # (eager edits between calls: structure, and
                         # Variable metadata edited in place)
                         M.program_strategy(structural=True, min_size=0,
                                            max_size=2, meta_edit=True)),
               min_size=1, max_size=3),                          # calls
      st.sampled_from(['jit', 'remat', 'jit_remat']),
      M.return_strategy())


@clause('jit_family', strategy=jit_case, quick=650, thorough=12000,
        quick_shards=13, thorough_shards=16, shrink=False,
        rule='random graphs x 1-2 arguments (possibly the same node twice or '
        'nodes reachable from each other) x mutation program (value updates, '
        'add/delete/rebind/swap attributes, new Variables/Modules/statics) x '
        'nnx.jit / nnx.remat / jit(remat) x 1-3 calls of the same transformed '
        'function with eager structure edits and in-place Variable metadata '
        'edits between calls (programs read metadata) x graph-valued '
        'results (0-2 objects that were reachable before the program ran, '
        'possibly detached by it, bare or inside a newly created holder); '
        'result, canonical form of all arguments and results together, and '
        'object identity of caller objects equal '
        'the eager run on a twin graph; unchanged consecutive calls do not '
        'retrace; non-trivial = program has a structural edit, or arguments '
        'alias')
def jit_family(case, ctx):
  spec, arg_idx, prog, calls, tr, ret = case
  rA, nodesA, _ = G.build(spec)
  rB, nodesB, _ = G.build(spec)
  argsA = [nodesA[i % len(nodesA)] for i in arg_idx]
  argsB = [nodesB[i % len(nodesB)] for i in arg_idx]

  def meta_term(a):
    # every reachable Variable's metadata enters the result (static factor)
    _, vs = M.reachable(a)
    return sum((float(v.get_metadata().get('gain', 1.0)) - 1.0)
               * jnp.sum(v.value) for v in vs)

  def f(*a):
    TRACES.append(1)
    acc, out = M.run_program(prog, a[:-1], a[-1], ret)
    return acc + meta_term(a[:-1]), out

  def f_eager(*a):
    acc, out = M.run_program(prog, a[:-1], a[-1], ret)
    return acc + meta_term(a[:-1]), out

  with sut('wrap'):
    # direct form or the decorator spelling transform()(f)
    deco = len(prog) % 2 == 0
    if tr == 'jit':
      tf = nnx.jit()(f) if deco else nnx.jit(f)
    elif tr == 'remat':
      tf = nnx.remat()(f) if deco else nnx.remat(f)
    else:
      tf = nnx.jit()(nnx.remat(f)) if deco else nnx.jit(nnx.remat(f))
  prev_struct_change = True
  for ci, (xv, oob) in enumerate(calls):
    x = jnp.asarray(float(xv), jnp.float32)
    beforeA, beforeB = M.numbering(argsA), M.numbering(argsB)
    yA, outA = f_eager(*argsA, x)
    n0 = len(TRACES)
    with sut(f'{tr} call {ci}'):
      yB, outB = tf(*argsB, x)
    traced = len(TRACES) - n0
    require(np.allclose(np.asarray(yA), np.asarray(yB), rtol=1e-6, atol=1e-6),
            lambda: f'call {ci}: {tr} returned {np.asarray(yB)}, eager '
            f'{np.asarray(yA)}')
    require(len(outA) == len(outB), lambda: f'call {ci}: {len(outB)} graph '
            f'results, eager {len(outA)}')
    compare_after(list(argsA) + list(outA), list(argsB) + list(outB),
                  beforeA, beforeB, f'{tr} call {ci}')
    if tr == 'jit' and ci > 0 and not prev_struct_change:
      require(traced == 0, lambda: f'call {ci}: identical structure as the '
              f'previous call but the function was traced again ({traced}x)')
    prev_struct_change = M.is_structural(prog) or bool(oob)
    if oob:
      x0 = jnp.asarray(1.0, jnp.float32)
      M.run_program(oob, argsA, x0)
      M.run_program(oob, argsB, x0)
  # one more call after the metadata of every reachable Variable was edited
  # in place (same objects, same shapes): the function must see the new values
  _, vsA = M.reachable(argsA)
  _, vsB = M.reachable(argsB)
  if vsA and len(vsA) == len(vsB):
    for v in vsA + vsB:
      v.gain = 3.0
    x = jnp.asarray(1.0, jnp.float32)
    beforeA, beforeB = M.numbering(argsA), M.numbering(argsB)
    yA, outA = f_eager(*argsA, x)
    with sut(f'{tr} call after in-place metadata edit'):
      yB, outB = tf(*argsB, x)
    require(np.allclose(np.asarray(yA), np.asarray(yB), rtol=1e-6, atol=1e-6),
            lambda: f'call after editing Variable metadata in place: {tr} '
            f'returned {np.asarray(yB)}, eager {np.asarray(yA)}')
    compare_after(list(argsA) + list(outA), list(argsB) + list(outB),
                  beforeA, beforeB, f'{tr} call after metadata edit')
  alias = len(arg_idx) == 2 and (arg_idx[0] % len(nodesA)) == (
      arg_idx[1] % len(nodesA))
  ctx.note(labels=[tr, f'calls{len(calls)}',
                   'structural' if M.is_structural(prog) else 'values',
                   'same-arg-twice' if alias else 'distinct-args',
                   f'ret{len(ret)}'] + sorted({f'ret:{k}' for k, _ in ret}),
           nontrivial=M.is_structural(prog) or alias)


# ----------------------------------------------------------------------------
def flow_case():
  return st.tuples(
      graph_for_transforms(),
      st.lists(st.integers(0, 5), min_size=1, max_size=2),
      st.lists(M.program_strategy(structural=False, max_size=4), min_size=3,
               max_size=3),
      st.sampled_from(['cond', 'switch', 'while_loop', 'fori_loop',
                       'cached_partial', 'cached_partial', 'cached_partial']),
      st.integers(0, 3), st.integers(-2, 2))


@clause('control_flow', strategy=flow_case, quick=650, thorough=10000,
        quick_shards=13, thorough_shards=16, shrink=False,
        rule='random graphs x value-update programs under nnx.cond (both '
        'predicates), nnx.switch (index 0-2), nnx.while_loop / nnx.fori_loop '
        '(trip count 0-3, the carry optionally led by a bare counter Variable) '
        'and cached_partial(jit): result and final state of '
        'the caller\'s objects equal the Python if / index / unrolled loop on '
        'a twin graph; non-trivial = >=1 Variable update and (trip count>=2 or '
        'arguments alias or branch index > 0)')
def control_flow(case, ctx):
  spec, arg_idx, progs, kind, k, xv = case
  rA, nodesA, _ = G.build(spec)
  rB, nodesB, _ = G.build(spec)
  argsA = tuple(nodesA[i % len(nodesA)] for i in arg_idx)
  argsB = tuple(nodesB[i % len(nodesB)] for i in arg_idx)
  x = jnp.asarray(float(xv), jnp.float32)
  beforeA, beforeB = M.numbering(argsA), M.numbering(argsB)

  def branch(p):
    def fn(*a):
      return M.run_program(p, a[:-1], a[-1])
    return fn

  if kind == 'cond':
    pred = bool(k % 2)
    yA = branch(progs[0] if pred else progs[1])(*argsA, x)
    with sut('nnx.cond'):
      yB = nnx.cond(jnp.asarray(pred), branch(progs[0]), branch(progs[1]),
                    *argsB, x)
  elif kind == 'switch':
    idx = k % 3
    yA = branch(progs[idx])(*argsA, x)
    with sut('nnx.switch'):
      yB = nnx.switch(jnp.asarray(idx), [branch(p) for p in progs], *argsB, x)
  elif kind == 'while_loop':
    n = k
    acc = jnp.zeros((), jnp.float32)
    for _ in range(n):
      acc = acc + M.run_program(progs[0], argsA, x)
    yA = acc
    # optionally a bare Variable (a step counter) is the first graph leaf of
    # the carry, ahead of the modules
    lead = (nnx.Param(jnp.zeros((), jnp.float32)),) if xv % 2 == 0 else ()
    def cond_fun(s):
      return s[-2] < n
    def body_fun(s):
      *c, a, i, ac = s
      for v in c:
        v.value = v.value + 1.0
      ac = ac + M.run_program(progs[0], a, x)
      return (*c, a, i + 1, ac)
    with sut('nnx.while_loop'):
      *_, yB = nnx.while_loop(cond_fun, body_fun,
                              (*lead, argsB, jnp.asarray(0), jnp.zeros(
                                  (), jnp.float32)))
    for v in lead:
      require(float(v.value) == float(n), lambda: 'while_loop: the Variable '
              f'leading the carry counts {float(v.value)} steps, not {n}')
  elif kind == 'fori_loop':
    n = k
    acc = jnp.zeros((), jnp.float32)
    for i in range(n):
      acc = acc + M.run_program(progs[0], argsA, x + i)
    yA = acc
    lead = (nnx.Param(jnp.zeros((), jnp.float32)),) if xv % 2 == 0 else ()
    def body(i, s):
      *c, a, ac = s
      for v in c:
        v.value = v.value + 1.0
      ac = ac + M.run_program(progs[0], a, x + i)
      return (*c, a, ac)
    with sut('nnx.fori_loop'):
      *_, yB = nnx.fori_loop(0, n, body,
                             (*lead, argsB, jnp.zeros((), jnp.float32)))
    for v in lead:
      require(float(v.value) == float(n), lambda: 'fori_loop: the Variable '
              f'leading the carry counts {float(v.value)} steps, not {n}')
  else:
    if len(set(id(a) for a in argsA)) < len(argsA) and not getattr(
        ctx, 'probe_known', False):
      # known finding C04:cached_partial-same-node-twice (excluded, probed
      # separately)
      ctx.exclude('C04:cached_partial-same-node-twice')
      argsA, argsB = argsA[:1], argsB[:1]
      beforeA, beforeB = M.numbering(argsA), M.numbering(argsB)
    f = branch(progs[0])
    # all arguments cached, or only the first one; then the rest (which may
    # alias objects of the cached one), or a bare Variable of the cached
    # object, is passed at call time
    partial_cache = (k + xv) % 2 == 1
    if partial_cache:
      _, vsA = M.reachable(argsA[:1])
      _, vsB = M.reachable(argsB[:1])
      if vsA and (len(argsA) < 2 or k % 2 == 0):
        j = (k + abs(xv)) % len(vsA)
        argsA, argsB = (argsA[0], vsA[j]), (argsB[0], vsB[j])
        beforeA, beforeB = M.numbering(argsA), M.numbering(argsB)
      partial_cache = len(argsB) >= 2
    yA = f(*argsA, x)
    yA2 = f(*argsA, x + 1)
    with sut('cached_partial'):
      if partial_cache:
        cf = nnx.cached_partial(nnx.jit(f), argsB[0])
        yB = cf(*argsB[1:], x)
        yB2 = cf(*argsB[1:], x + 1)
      else:
        cf = nnx.cached_partial(nnx.jit(f), *argsB)
        yB = cf(x)
        yB2 = cf(x + 1)
    require(np.allclose(np.asarray(yA2), np.asarray(yB2), rtol=1e-6),
            lambda: f'cached_partial second call {np.asarray(yB2)} vs eager '
            f'{np.asarray(yA2)}')
  require(np.allclose(np.asarray(yA), np.asarray(yB), rtol=1e-6, atol=1e-6),
          lambda: f'{kind}: result {np.asarray(yB)} vs eager {np.asarray(yA)}')
  compare_after(argsA, argsB, beforeA, beforeB, kind)
  has_set = any(s[0] == 'set' for p in progs for s in p)
  alias = len(arg_idx) == 2 and (arg_idx[0] % len(nodesA)) == (
      arg_idx[1] % len(nodesA))
  ctx.note(labels=[kind, f'k{k}'] + (['variable-leads-carry'] if kind in (
      'while_loop', 'fori_loop') and xv % 2 == 0 else []),
           nontrivial=has_set and (k >= 2 or alias or (
               kind in ('cond', 'switch') and k >= 1)))


KNOWN_CASE = [
    {'nodes': [{'cls': 'GA', 'attrs': [['v0', {'k': 'var', 'i': 0}]]}],
     'vars': [{'type': 'Param', 'seed': 1, 'shape': [], 'meta': {}}]},
    [0, 0], [[['set', 0, 1, 1], ['read', 0]], [], []], 'cached_partial', 1, 1]


@clause('known_probes', enum=lambda ctx: [KNOWN_CASE], quick_shards=1,
        thorough_shards=1,
        rule='re-executes the recorded reproduction of the known finding '
        '(cached_partial with the same node passed twice)')
def known_probes(case, ctx):
  ctx.probe_known = True
  try:
    control_flow(case, ctx)
  except Violation as v:
    raise Violation(str(v), key='C04:cached_partial-same-node-twice') from None


# ----------------------------------------------------------------------------
# two threads, each transforming calls on its OWN objects, overlapping in time
# (the harness owns the schedule through events inside the function bodies)
import threading as _threading


class _TCounter(nnx.Module):
  def __init__(self, start):
    self.count = nnx.Variable(jnp.asarray(start, jnp.float32))
    self.total = nnx.Variable(jnp.zeros((), jnp.float32))


@clause('two_threads',
        strategy=lambda: st.fixed_dictionaries({
            'transform': st.sampled_from(['jit', 'remat', 'jit_shared']),
            'calls': st.integers(1, 2),
            'na': st.integers(1, 3), 'nb': st.integers(4, 6),
            'start': st.integers(0, 50)}),
        quick=24, thorough=400, quick_shards=4, thorough_shards=8,
        shrink=False,
        rule='two threads call a transformed function (nnx.jit / nnx.remat, '
        'one function per thread or one shared jitted function with inputs '
        'of different shape) on their own, unrelated objects with the calls '
        'overlapping (B enters its body while A is inside its body, A '
        'returns while B is still inside): afterwards each caller\'s object '
        'holds what the eager run leaves, also for a further sequential '
        'call; non-trivial = always')
def two_threads(case, ctx):
  T = 120.0
  a_in, b_in, a_done = (_threading.Event(), _threading.Event(),
                        _threading.Event())
  sync = {'on': True}

  def hook():
    if not sync['on']:
      return
    me = _threading.current_thread().name
    if me == 'verif-A':
      a_in.set()
      if not b_in.wait(T):
        raise RuntimeError('harness: B never reached its body')
    elif me == 'verif-B':
      b_in.set()
      if not a_done.wait(T):
        raise RuntimeError('harness: A never finished')

  def make_step():
    def step(m, x):
      hook()
      m.count.value = m.count.value + 1.0
      m.total.value = m.total.value + jnp.sum(x)
      return m.count.value * 10.0 + jnp.sum(x)
    return step

  tr = case['transform']
  if tr == 'jit_shared':
    f = nnx.jit(make_step())
    steps = {'A': f, 'B': f}
  elif tr == 'jit':
    steps = {'A': nnx.jit(make_step()), 'B': nnx.jit(make_step())}
  else:
    steps = {'A': nnx.remat(make_step()), 'B': nnx.remat(make_step())}
  objs = {'A': _TCounter(case['start']), 'B': _TCounter(case['start'] + 100)}
  xs = {'A': jnp.arange(case['na'], dtype=jnp.float32),
        'B': jnp.arange(case['nb'], dtype=jnp.float32) + 1.0}
  box = {}

  def work(who):
    try:
      if who == 'B' and not a_in.wait(T):
        raise RuntimeError('harness: A never reached its body')
      box[who] = ('ok', steps[who](objs[who], xs[who]))
    except BaseException as e:  # noqa
      box[who] = ('err', e)
    finally:
      if who == 'A':
        a_done.set()

  ths = [_threading.Thread(target=work, args=(w,), name=f'verif-{w}',
                           daemon=True) for w in 'AB']
  for t in ths:
    t.start()
  for t in ths:
    t.join(3 * T)
  a_done.set(); b_in.set(); a_in.set()
  for w in 'AB':
    if w not in box:
      raise RuntimeError('harness: schedule did not complete')
    if box[w][0] == 'err':
      e = box[w][1]
      if isinstance(e, RuntimeError) and str(e).startswith('harness:'):
        raise e
      raise Violation(f'{tr}: thread {w} raised {type(e).__name__}: '
                      f'{str(e)[:200]}')
  sync['on'] = False
  ncalls = 1
  for _ in range(case['calls'] - 1):
    for w in 'AB':
      with sut('sequential call afterwards'):
        box[w] = ('ok', steps[w](objs[w], xs[w]))
    ncalls += 1
  for w, start in (('A', case['start']), ('B', case['start'] + 100)):
    exp_count = start + ncalls
    exp_total = ncalls * float(np.sum(np.asarray(xs[w])))
    got = (float(objs[w].count.value), float(objs[w].total.value))
    require(np.allclose(got, (exp_count, exp_total)), lambda: f'{tr}: the '
            f'object passed in by thread {w} has (count, total) = {got} after '
            f'{ncalls} call(s), eager gives {(exp_count, exp_total)}: the '
            'caller\'s own object did not receive the updates')
    y = float(box[w][1])
    require(np.isclose(y, exp_count * 10.0 + float(np.sum(np.asarray(xs[w])))),
            lambda: f'{tr}: thread {w} returned {y}')
  ctx.note(labels=[tr, f'calls{ncalls}'], nontrivial=True)


# ----------------------------------------------------------------------------
# repeated calls of one nnx.jit function while an attribute is re-bound to a
# generic pytree container with other static content (struct dataclass static
# field, another namedtuple class with the same fields)
import collections as _collections
from flax import struct as _struct


@_struct.dataclass
class _Scaled:
  w: object
  scale: float = _struct.field(pytree_node=False, default=1.0)


_PairA = _collections.namedtuple('_PairA', ['w', 'v'])
_PairB = _collections.namedtuple('_PairB', ['w', 'v'])


class _Holder(nnx.Module):
  def __init__(self):
    self.cfg = _Scaled(w=nnx.Param(jnp.asarray(1.0)), scale=2.0)
    self.pair = _PairA(w=nnx.Param(jnp.asarray(1.0)),
                       v=nnx.Variable(jnp.asarray(0.5)))
    self.calls = nnx.Variable(jnp.asarray(0))


def _holder_step(m):
  m.calls.value = m.calls.value + 1
  m.cfg.w.value = m.cfg.w.value * m.cfg.scale
  bonus = 10.0 if isinstance(m.pair, _PairB) else 1.0
  m.pair.v.value = m.pair.v.value + bonus
  return m.cfg.w.value + m.cfg.scale + m.pair.v.value * bonus


@clause('jit_pytree_statics',
        strategy=lambda: st.lists(st.one_of(
            st.sampled_from([0.5, 2.0, 3.0]).map(lambda s: ['scale', s]),
            st.sampled_from(['A', 'B']).map(lambda c: ['pair', c]),
            st.just(['call'])), min_size=1, max_size=6),
        quick=150, thorough=5000, quick_shards=8, thorough_shards=16,
        shrink=False,
        rule='one nnx.jit function called after each of 1-6 edits of its '
        'argument: an attribute re-bound to a struct dataclass with another '
        'static field value, or to another namedtuple class with the same '
        'fields (same Variables inside), or no edit: every call returns what '
        'the eager function returns on a twin object, Variables agree '
        'afterwards and the re-bound containers stay the caller\'s; '
        'non-trivial = a re-bind to a value used in an earlier call')
def jit_pytree_statics(case, ctx):
  fn = nnx.jit(_holder_step)
  mj, me = _Holder(), _Holder()
  seen, revisit = set(), False
  with sut('first call'):
    oj, oe = fn(mj), _holder_step(me)
  require(float(oj) == float(oe), 'first call differs from eager')
  seen.add((2.0, 'A'))
  cur = [2.0, 'A']
  for step, (kind, *arg) in enumerate(case):
    for m in (mj, me):
      if kind == 'scale':
        m.cfg = _Scaled(w=m.cfg.w, scale=arg[0])
      elif kind == 'pair':
        cls = _PairA if arg[0] == 'A' else _PairB
        m.pair = cls(w=m.pair.w, v=m.pair.v)
    if kind == 'scale':
      cur[0] = arg[0]
    elif kind == 'pair':
      cur[1] = arg[0]
    revisit = revisit or (kind != 'call' and tuple(cur) in seen)
    seen.add(tuple(cur))
    with sut(f'call after step {step}'):
      oj, oe = fn(mj), _holder_step(me)
    require(np.isclose(float(oj), float(oe)), lambda: f'nnx.jit returned '
            f'{float(oj)} after edits {case[:step + 1]}, eager {float(oe)} '
            '(stale trace)')
    for name, get in (('cfg.w', lambda m: m.cfg.w.value),
                      ('pair.v', lambda m: m.pair.v.value),
                      ('calls', lambda m: m.calls.value)):
      require(np.isclose(float(get(mj)), float(get(me))), lambda: f'Variable '
              f'{name} is {float(get(mj))} after nnx.jit, {float(get(me))} '
              f'eagerly (edits {case[:step + 1]})')
    require(mj.cfg.scale == cur[0] and type(mj.pair).__name__ == '_Pair' +
            cur[1], lambda: 'the call replaced the caller\'s re-bound '
            f'container: scale {mj.cfg.scale}, pair {type(mj.pair).__name__}, '
            f'expected {cur}')
  ctx.note(labels=sorted({k for k, *_ in case}), nontrivial=revisit)
