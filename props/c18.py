"""C18 — Linen <-> NNX bridge wrappers behave like the module they wrap."""
from __future__ import annotations

import numpy as np
from hypothesis import strategies as st

from harness.core import begin, clause, Violation, sut, require, expect_raises
from harness import linen_dsl as L

import jax
import jax.numpy as jnp
import flax.linen as nn
from flax import nnx
from flax.core import unfreeze, meta
from flax.nnx import bridge, variablelib, statelib
from flax.nnx.bridge import variables as bv

begin('C18')

ASSUMPTIONS = [
    'ToNNX is checked on harness DSL programs whose variable names are unique '
    'across collections within one scope (the wrapper keeps all collections '
    'of a scope in one attribute namespace; a low-weight clause probes the '
    'clash)',
    'the reference for ToNNX is the wrapped Linen module applied to the '
    'variables produced by an independent Module.init with the key the '
    'wrapper derives from its Rngs (fold_in(key(seed), 0))',
    'float32, rtol=1e-6',
]

T6 = dict(rtol=1e-6, atol=1e-6)


def close(a, b):
  la, lb = jax.tree_util.tree_leaves(a), jax.tree_util.tree_leaves(b)
  return len(la) == len(lb) and all(
      np.shape(x) == np.shape(y) and np.allclose(np.asarray(x), np.asarray(y),
                                                 **T6)
      for x, y in zip(la, lb))


def unique_names(prog, used=None):
  """Make variable names unique across collections inside each scope."""
  used = set()
  ops = []
  for op in prog['ops']:
    op = dict(op)
    if op['op'] in ('param', 'counter', 'stat', 'sow', 'listvar'):
      n = op['name']
      while n in used:
        n = n + 'u'
      used.add(n)
      op['name'] = n
    if op['op'] in ('dense', 'sub') and op.get('name'):
      n = op['name']
      while n in used:
        n = n + 'm'
      used.add(n)
      op['name'] = n
    if op['op'] == 'sub':
      op['prog'] = unique_names(op['prog'])
    ops.append(op)
  return dict(prog, ops=ops)


def wrapper_state(w):
  """{col: nested values} of a ToNNX wrapper, grouped by Variable type."""
  out = {}
  for p, v in statelib.to_flat_state(nnx.state(w)):
    if isinstance(v.type, type) and issubclass(v.type, nnx.RngState):
      continue
    col = variablelib.variable_name_from_type(v.type)
    node = out.setdefault(col, {})
    if isinstance(p[-1], int):
      # element of a tuple stored under one name (what `sow` keeps)
      for k in p[:-2]:
        node = node.setdefault(k, {})
      node[p[-2]] = tuple(node.get(p[-2], ())) + (v.value,)
      continue
    for k in p[:-1]:
      node = node.setdefault(k, {})
    node[p[-1]] = v.value
  return out


def tonnx_case():
  return st.tuples(
      L.case_strategy(allow=('counter', 'stat', 'tanh', 'rng', 'sow',
                             'listvar'),
                      max_depth=2, max_ops=4, styles=('compact',)),
      st.integers(1, 3), st.lists(st.sampled_from(['counters', 'batch_stats',
                                                   'cache', 'intermediates',
                                                   'aux']), max_size=2,
                                  unique=True),
      st.booleans(),
      # rngs handed over at call time (fresh nnx.Rngs per call) instead of
      # the streams the wrapper was constructed with
      st.booleans(),
      # a second lazy_init that raises (required argument missing) and is
      # caught by the caller, between the successful one and the calls
      st.booleans())


@clause('to_nnx', strategy=tonnx_case, quick=200, thorough=8000,
        quick_shards=10, thorough_shards=16, shrink=False,
        rule='generated Linen programs (Dense/param/counter/running-stat/rng '
        'draws/sow/list-valued variables, nested) wrapped with bridge.ToNNX, optionally nested inside an '
        'NNX parent, lazily initialised (optionally followed by a lazy_init '
        'that raises and is caught) and called 1-3 times with a mutable '
        'filter, drawing from the wrapper\'s own streams or from fresh '
        'nnx.Rngs passed at call time: after lazy_init every collection is stored under the NNX '
        'Variable type registered for its name with the values of an '
        'independent Linen init; every call returns what Linen apply returns '
        'on the variables currently held, and mutable updates persist into '
        'the next call; non-trivial = program has state and >=2 calls')
def to_nnx(case, ctx):
  case, ncalls, mutable, nested, *rest = case
  call_time_rngs = bool(rest and rest[0])
  failed_init = bool(len(rest) > 1 and rest[1])
  case = L.normalize_case(dict(case, shared=[]))
  case = dict(case, prog=unique_names(case['prog']))
  # rng ops need explicit streams
  for op in L.collect(case['prog'], 'rng'):
    pass
  mod = L.make_root(case)
  x = L.make_input(case)
  seed = case['seed']
  rngs = nnx.Rngs(params=seed, dropout=seed + 1, noise=seed + 2)
  with sut('ToNNX + lazy_init'):
    w = bridge.ToNNX(mod, rngs=rngs)
    if nested:
      class Parent(nnx.Module):
        def __init__(self, inner):
          self.inner = inner
          self.scale = nnx.Param(jnp.asarray(2.0))
        def __call__(self, xx, **kw):
          return self.inner(xx, **kw) * self.scale.value
      holder = Parent(w)
    bridge.lazy_init(w, x)
  k = lambda s, i: jax.random.fold_in(jax.random.key(s), i)
  init_rngs = {'params': k(seed, 0), 'dropout': k(seed + 1, 0),
               'noise': k(seed + 2, 0)}
  with sut('linen init'):
    V = unfreeze(mod.init(init_rngs, x))
  got = wrapper_state(w)
  require(set(got) == set(V), lambda: f'wrapper holds collections '
          f'{sorted(got)}, Linen init gives {sorted(V)}')
  for col in V:
    fa, fb = L.flat(got[col]), L.flat(V[col])
    require(set(fa) == set(fb) and all(close(fa[p], fb[p]) for p in fa),
            lambda: f'collection {col}: wrapper state differs from Linen init')
  for p, v in statelib.to_flat_state(nnx.state(w)):
    if issubclass(v.type, nnx.RngState):
      continue
    col = variablelib.variable_name_from_type(v.type)
    require(variablelib.variable_type_from_name(col) is v.type,
            f'{p}: type {v.type} is not the registered type of {col!r}')
  mutable = [c for c in mutable]
  if failed_init:
    try:
      bridge.lazy_init(holder if nested else w)
    except TypeError:
      pass
    # nothing was initialised: the wrapper still holds the same variables
    got2 = wrapper_state(w)
    require(set(got2) == set(got) and all(
        close(L.flat(got2[c]), L.flat(got[c])) for c in got), 'a lazy_init '
            'that raised changed the variables held by the wrapper')
  for i in range(ncalls):
    call_rngs = {'params': k(seed, i + 1), 'dropout': k(seed + 1, i + 1),
                 'noise': k(seed + 2, i + 1)}
    if failed_init:
      # whether the failed attempt consumed keys is not part of the
      # statement: the call draws the next key of each stream
      call_rngs = {n: k(seed + j, int(rngs[n].count.value))
                   for j, n in enumerate(['params', 'dropout', 'noise'])}
    kw = {}
    if call_time_rngs:
      s2 = seed + 1000 * (i + 1)
      kw['rngs'] = nnx.Rngs(params=s2, dropout=s2 + 1, noise=s2 + 2)
      call_rngs = {'params': k(s2, 0), 'dropout': k(s2 + 1, 0),
                   'noise': k(s2 + 2, 0)}
    with sut('linen apply'):
      if mutable:
        y_ref, upd = mod.apply(V, x, rngs=call_rngs, mutable=mutable)
        for c, sub in unfreeze(upd).items():
          V[c] = sub
      else:
        y_ref = mod.apply(V, x, rngs=call_rngs)
    with sut('wrapper call'):
      target = holder if nested else w
      y = target(x, mutable=mutable, **kw) if mutable else target(x, **kw)
    require(close(y, y_ref * 2.0 if nested else y_ref), lambda: f'call {i}: '
            'wrapper output differs from Linen apply on the held variables'
            + (' with the keys of the rngs passed at call time'
               if call_time_rngs else '')
            + (' (after a lazy_init that raised and was caught)'
               if failed_init else ''))
    got = wrapper_state(w)
    for col in V:
      if not L.flat(V[col]):
        continue
      fa, fb = L.flat(got.get(col, {})), L.flat(V[col])
      require(set(fa) == set(fb) and all(close(fa[p], fb[p]) for p in fa),
              lambda: f'call {i}: wrapper state of {col} differs from the '
              'Linen reference after mutable updates')
  stateful = L.uses(case['prog'], ('counter', 'stat', 'listvar'))
  draws = L.uses(case['prog'], ('rng',))
  ctx.note(labels=['nested' if nested else 'flat', f'calls{ncalls}',
                   'mutable' if mutable else 'immutable',
                   'call-rngs' if call_time_rngs else 'wrapper-rngs',
                   'draws' if draws else 'nodraws',
                   'sow' if L.uses(case['prog'], ('sow',)) else 'nosow',
                   'failed-init' if failed_init else 'clean-init'],
           nontrivial=stateful and ncalls >= 2 and bool(mutable))


# ----------------------------------------------------------------------------
class Count(nnx.Variable):
  pass


class NLinear(nnx.Module):
  def __init__(self, din, dout, rngs):
    # metadata whose values are all falsy is still metadata
    self.w = nnx.Param(jax.random.normal(rngs.params(), (din, dout)),
                       trainable=False, group=0)
    self.b = nnx.Param(jnp.zeros((dout,)), note='bias')

  def __call__(self, x):
    # user code may rely on the metadata being there
    scale = 1.0 if self.w.trainable is False and self.w.group == 0 else 2.0
    return (x @ self.w.value) * scale + self.b.value


class Peak(nnx.BatchStat):
  """A Variable type that subclasses another one in use (own collection)."""


class NNorm(nnx.Module):
  def __init__(self, d, rngs):
    self.lin = NLinear(d, d, rngs)
    self.mean = nnx.BatchStat(jnp.zeros((d,)))
    self.count = Count(jnp.zeros((), jnp.int32))
    self.peak = Peak(jnp.zeros(()))

  def __call__(self, x, train=True):
    y = self.lin(x)
    if train:
      self.mean.value = 0.9 * self.mean.value + 0.1 * y.mean(axis=0)
      self.count.value = self.count.value + 1
      self.peak.value = jnp.maximum(self.peak.value, jnp.max(jnp.abs(y)))
    return y - self.mean.value + 0.01 * self.peak.value


class NDrop(nnx.Module):
  def __init__(self, d, rngs):
    self.lin = NLinear(d, d, rngs)
    self.rngs = rngs

  def __call__(self, x):
    key = self.rngs.dropout()
    return self.lin(x) + jax.random.uniform(key, ())


class NSelfSeeded(nnx.Module):
  """Takes no `rngs` argument (ToLinen(skip_rng=True)): creates its own
  streams and draws from them when called."""

  def __init__(self, d):
    r = nnx.Rngs(params=3, dropout=5)
    self.lin = NLinear(d, d, r)
    self.rngs = r

  def __call__(self, x):
    key = self.rngs.dropout()
    return self.lin(x) + jax.random.uniform(key, ())


@clause('to_linen',
        strategy=lambda: st.fixed_dictionaries({
            'cls': st.sampled_from(['linear', 'norm', 'drop', 'selfseed']),
            'd': st.integers(1, 3), 'calls': st.integers(1, 3),
            'mutable': st.sampled_from([[], ['batch_stats'],
                                        ['batch_stats', 'Count'], ['Peak'],
                                        ['batch_stats', 'Peak'],
                                        ['Count', 'Peak']]),
            'nested': st.booleans(), 'seed': st.integers(0, 2**16)}),
        quick=150, thorough=5000, quick_shards=10, thorough_shards=16,
        shrink=False,
        rule='NNX classes (linear, a stateful normaliser with BatchStat + '
        'counter Variables, an rng user, an rng user that takes no rngs '
        'argument and is wrapped with skip_rng=True) wrapped with '
        'bridge.to_linen / ToLinen, '
        'standalone or inside a Linen parent: init exposes each Variable under '
        'the collection named after its type (+ the nnx graphdef); apply on '
        'the variables equals the NNX module holding the same state; state '
        'updates round-trip through mutable outputs over 1-3 calls; non-'
        'trivial = stateful class with a mutable filter and >=2 calls')
def to_linen(case, ctx):
  d, seed = case['d'], case['seed']
  rng = np.random.default_rng(seed)
  x = jnp.asarray(rng.normal(size=(3, d)), jnp.float32)
  cls, args = {'linear': (NLinear, (d, d)), 'norm': (NNorm, (d,)),
               'drop': (NDrop, (d,)), 'selfseed': (NSelfSeeded, (d,))}[
                   case['cls']]
  skip = case['cls'] == 'selfseed'
  def wrap(name):
    if skip:
      return bridge.ToLinen(cls, args=args, skip_rng=True, name=name)
    return bridge.to_linen(cls, *args, name=name)
  with sut('to_linen'):
    lm = wrap('wrapped' if case['nested'] else None)
  if case['nested']:
    inner = lm
    class LParent(nn.Module):
      @nn.compact
      def __call__(self, xx):
        return wrap('wrapped')(xx) * 2.0
    lm = LParent()
  keys = {'params': jax.random.key(seed), 'dropout': jax.random.key(seed + 1)}
  with sut('init'):
    V = unfreeze(lm.init(keys, x))
  top = V if not case['nested'] else {c: V[c]['wrapped'] for c in V}
  expect_cols = {'linear': {'params', 'nnx'},
                 'norm': {'params', 'batch_stats', 'Count', 'Peak', 'nnx'},
                 'drop': {'params', 'nnx'},
                 'selfseed': {'params', 'nnx'}}[case['cls']]
  got_cols = {c for c in top if L.flat(top[c]) or c == 'nnx'}
  rng_cols = {c for c in got_cols if c not in expect_cols}
  require(expect_cols <= got_cols, lambda: f'init collections {sorted(top)}, '
          f'expected at least {sorted(expect_cols)}')
  for c in rng_cols:
    require(issubclass(variablelib.variable_type_from_name(c), nnx.RngState),
            lambda: f'unexpected collection {c!r}')
  # metadata survives NNX -> Linen: the Linen variable is a box carrying it
  lin = top['params']['lin'] if case['cls'] != 'linear' else top['params']
  wbox, bbox = lin['w'], lin['b']
  require(isinstance(wbox, meta.AxisMetadata) and getattr(
      wbox, 'metadata', {}).get('trainable', None) is False and getattr(
          wbox, 'metadata', {}).get('group', None) == 0,
          lambda: f'metadata (trainable=False, group=0) of Variable w was '
          f'lost going NNX -> Linen: got {type(wbox).__name__}')
  require(isinstance(bbox, meta.AxisMetadata) and bbox.metadata.get('note')
          == 'bias', 'metadata of Variable b was lost going NNX -> Linen')
  # reference NNX module holding the same state
  ref = cls(*args) if skip else cls(*args, rngs=nnx.Rngs(
      params=keys['params'], dropout=keys['dropout']))
  ref.lin_w = None
  del ref.lin_w
  def load(mod, variables):
    for p, v in statelib.to_flat_state(nnx.state(mod)):
      if issubclass(v.type, nnx.RngState):
        continue
      col = variablelib.variable_name_from_type(v.type)
      node = variables[col]
      for kk in p:
        node = node[kk]
      node = node.unbox() if isinstance(node, meta.AxisMetadata) else node
      tgt = mod
      for kk in p[:-1]:
        tgt = getattr(tgt, kk)
      getattr(tgt, p[-1]).value = jnp.asarray(node)
  load(ref, top)
  mutable = [c for c in case['mutable'] if c in top]
  for i in range(case['calls']):
    ck = {'dropout': jax.random.key(seed + 10 + i)}
    with sut('linen apply'):
      if mutable:
        y, upd = lm.apply(V, x, rngs=ck, mutable=mutable)
      else:
        y, upd = lm.apply(V, x, rngs=ck), {}
    # NNX reference: same state; updates only kept for mutable collections
    before = {p: np.asarray(v.value) for p, v in statelib.to_flat_state(
        nnx.state(ref)) if not issubclass(v.type, nnx.RngState)}
    if case['cls'] in ('drop', 'selfseed'):
      # ToLinen reseeds the NNX streams with make_rng(name) of its own scope:
      # fold_in_static(key, path + (1,)) (documented Linen derivation, C09)
      import hashlib
      from props.c09 import encode
      parts = (('wrapped',) if case['nested'] else ()) + (1,)
      h = int.from_bytes(hashlib.sha1(encode(parts, False)).digest()[:4], 'big')
      nnx.reseed(ref, dropout=jax.random.fold_in(ck['dropout'],
                                                 jnp.uint32(h)))
    y_ref = ref(x)
    for p, v in statelib.to_flat_state(nnx.variables(ref)):
      if issubclass(type(v), nnx.RngState):
        continue
      col = variablelib.variable_name_from_type(type(v))
      if col not in mutable:
        v.value = jnp.asarray(before[p])
    require(close(y, y_ref * 2.0 if case['nested'] else y_ref), lambda: f'call '
            f'{i}: ToLinen output differs from the NNX module with the same '
            'state')
    upd = unfreeze(upd)
    require(set(upd) == set(mutable), lambda: f'call {i}: apply returned '
            f'collections {sorted(upd)}, mutable {sorted(mutable)}')
    for c in mutable:
      # every Variable stays in the collection named after its own type
      old_paths = set(L.flat(V[c] if not case['nested'] else V[c]['wrapped']))
      new_paths = set(L.flat(upd[c] if not case['nested']
                             else upd[c]['wrapped']))
      require(old_paths == new_paths, lambda: f'call {i}: collection {c!r} '
              f'returned by apply holds {sorted(new_paths)}, it held '
              f'{sorted(old_paths)}')
      V[c] = upd[c]
    top = V if not case['nested'] else {c: V[c]['wrapped'] for c in V}
    for p, v in statelib.to_flat_state(nnx.state(ref)):
      if issubclass(v.type, nnx.RngState):
        continue
      col = variablelib.variable_name_from_type(v.type)
      node = top[col]
      for kk in p:
        node = node[kk]
      node = node.unbox() if isinstance(node, meta.AxisMetadata) else node
      require(close(node, v.value), lambda: f'call {i}: Linen variable '
              f'{col}/{p} differs from the NNX reference state')
  # sharding metadata survives NNX -> Linen *as sharding*: the partition spec
  # Linen derives from the converted variable is the one the annotation means
  # (logical names go through the variable's own sharding_rules or the
  # logical-axis-rules context; oracle: the mapping applied by hand)
  from jax.sharding import PartitionSpec
  rules = (('embed', 'in'), ('mlp', 'out'))
  names = [('embed', 'mlp'), ('embed', None), ('mlp', 'embed')][seed % 3]
  rule_form = ['none', 'local', 'context'][(seed // 3) % 3]
  kw = {'sharding_rules': rules} if rule_form == 'local' else {}
  kinit = nnx.with_partitioning(nnx.initializers.lecun_normal(), names, **kw)
  with sut('ToLinen(nnx.Linear, with_partitioning)'):
    sm = bridge.ToLinen(nnx.Linear, args=(d, d + 1),
                        kwargs=dict(kernel_init=kinit))
    sv = sm.init(jax.random.key(seed), x)
  kbox = sv['params']['kernel']
  require(isinstance(kbox, meta.AxisMetadata) and tuple(
      kbox.metadata.get('sharding', ())) == names, lambda: 'sharding names '
          f'{names} of the NNX kernel became {getattr(kbox, "metadata", None)}')
  mapping = dict(rules) if rule_form != 'none' else {}
  want = PartitionSpec(*[mapping.get(n, n) for n in names])
  with sut('nn.get_partition_spec on ToLinen variables'):
    if rule_form == 'context':
      with nn.logical_axis_rules(rules):
        got = nn.get_partition_spec(sv)['params']['kernel']
    else:
      got = nn.get_partition_spec(sv)['params']['kernel']
  require(got == want, lambda: f'ToLinen kernel annotated {names} (rules: '
          f'{rule_form}) has partition spec {got}, expected {want}')
  require(nn.get_partition_spec(sv)['params']['bias'] == PartitionSpec(),
          'unannotated ToLinen bias is not replicated')

  ctx.note(labels=[case['cls'], 'nested' if case['nested'] else 'flat',
                   'rules:' + rule_form],
           nontrivial=case['cls'] == 'norm' and bool(mutable)
           and case['calls'] >= 2)


# ----------------------------------------------------------------------------
def conv_case():
  leaf = st.tuples(st.sampled_from(['plain', 'partitioned', 'logical']),
                   st.lists(st.integers(1, 3), min_size=1, max_size=2),
                   st.integers(0, 99))
  layer = st.dictionaries(st.sampled_from(['kernel', 'bias', 'scale', 'v']),
                          leaf, min_size=1, max_size=3)
  col = st.dictionaries(st.sampled_from(['Dense_0', 'blk', 'head']), layer,
                        min_size=1, max_size=2)
  return st.tuples(
      st.dictionaries(st.sampled_from(['params', 'batch_stats', 'cache',
                                       'my_fresh_collection']), col,
                      min_size=1, max_size=3),
      st.sampled_from(['zz_new_name_a', 'zz_new_name_b']))


@clause('conversions', strategy=conv_case, quick=400, thorough=20000,
        quick_shards=4, shrink=False,
        rule='random Linen variable dicts (1-3 collections incl. a fresh '
        'name, plain arrays, nn.Partitioned and nn.LogicallyPartitioned boxes, disjoint layer names per '
        'collection): nnx_attrs_to_linen_vars(linen_vars_to_nnx_attrs(v)) == v '
        'incl. box type and axis names <-> sharding metadata; variable_type_'
        'from_name / variable_name_from_type are mutually inverse on '
        'registered and freshly registered names, also after a name was '
        're-registered for another type with overwrite=True; non-trivial = >=2 '
        'collections and a Partitioned leaf')
def conversions(case, ctx):
  spec, fresh = case
  saved = dict(variablelib.VariableTypeCache)
  try:
    V = {}
    has_part = False
    for ci, (col, layers) in enumerate(sorted(spec.items())):
      V[col] = {}
      for lname, leaves in layers.items():
        ln = f'{lname}_{ci}'           # disjoint attribute names per collection
        V[col][ln] = {}
        for vname, (kind, shape, seed) in leaves.items():
          a = jnp.asarray(np.random.default_rng(seed).normal(size=tuple(shape)),
                          jnp.float32)
          if kind == 'partitioned':
            names = tuple(['data', 'model', None][i % 3]
                          for i in range(len(shape)))
            a = nn.Partitioned(a, names=names)
            has_part = True
          elif kind == 'logical':
            names = tuple(['batch', 'embed', None][i % 3]
                          for i in range(len(shape)))
            a = nn.LogicallyPartitioned(
                a, names=names,
                rules=(('batch', 'data'),) if seed % 2 else None)
            has_part = True
          V[col][ln][vname] = a
    boxes = [(b, (tuple(b.names), getattr(b, 'rules', None)))
             for b in jax.tree_util.tree_leaves(
        V, is_leaf=lambda z: isinstance(z, nn.Partitioned))
             if isinstance(b, nn.Partitioned)]
    with sut('linen_vars_to_nnx_attrs'):
      attrs = bv.linen_vars_to_nnx_attrs(V)
    for b, names in boxes:
      require((getattr(b, 'names', None), getattr(b, 'rules', None)) == names,
              lambda: 'converting to NNX '
              f'attributes modified the caller\'s {type(b).__name__} box '
              f'(names, rules {names} -> {getattr(b, "names", "<missing>")}, '
              f'{getattr(b, "rules", "<missing>")})')
    for col in V:
      for ln in V[col]:
        for vname, orig in V[col][ln].items():
          var = attrs[ln][vname]
          require(type(var) is variablelib.variable_type_from_name(col),
                  lambda: f'{col}/{ln}/{vname} stored as {type(var).__name__}')
          val = orig.value if isinstance(orig, nn.Partitioned) else orig
          require(np.array_equal(np.asarray(var.value), np.asarray(val)),
                  'value changed by the conversion')
          if isinstance(orig, nn.Partitioned):
            require(tuple(var.sharding) == tuple(orig.names), lambda: 'axis '
                    f'names {orig.names} became sharding {var.sharding}')
    with sut('nnx_attrs_to_linen_vars'):
      back = bv.nnx_attrs_to_linen_vars(attrs)
    fa = jax.tree_util.tree_flatten_with_path(
        V, is_leaf=lambda z: isinstance(z, nn.Partitioned))[0]
    fb = jax.tree_util.tree_flatten_with_path(
        back, is_leaf=lambda z: isinstance(z, nn.Partitioned))[0]
    require([p for p, _ in fa] == [p for p, _ in fb] or
            sorted(map(str, [p for p, _ in fa])) == sorted(
                map(str, [p for p, _ in fb])),
            lambda: f'round trip changed the variable paths')
    db = {str(p): v for p, v in fb}
    for p, v in fa:
      w = db[str(p)]
      require(type(w) is type(v) or (not isinstance(v, nn.Partitioned)
                                      and not isinstance(w, nn.Partitioned)),
              lambda: f'{p}: box type {type(v).__name__} -> {type(w).__name__}')
      if isinstance(v, nn.Partitioned):
        require(tuple(w.names) == tuple(v.names) and np.array_equal(
            np.asarray(w.value), np.asarray(v.value)),
                f'{p}: Partitioned names/value changed')
        require(getattr(w, 'rules', None) == getattr(v, 'rules', None),
                lambda: f'{p}: LogicallyPartitioned rules {v.rules} -> '
                f'{getattr(w, "rules", None)}')
      else:
        require(np.array_equal(np.asarray(w), np.asarray(v)),
                f'{p}: value changed')
    # registry inverse laws
    for name, typ in list(variablelib.VariableTypeCache.items()):
      require(variablelib.variable_type_from_name(name) is typ and
              variablelib.variable_name_from_type(typ) in [
                  n for n, t in variablelib.VariableTypeCache.items()
                  if t is typ], f'registry not inverse for {name}')
    with sut('fresh registration'):
      t = variablelib.variable_type_from_name(fresh, allow_register=True)
      n = variablelib.variable_name_from_type(t)
    require(n == fresh and variablelib.variable_type_from_name(fresh) is t,
            'fresh name/type registration is not inverse')
    expect_raises(ValueError, lambda: variablelib.variable_type_from_name(
        fresh + '_unregistered'), 'unregistered name without allow_register')
    # a name re-registered for another type (overwrite=True): the name now
    # belongs to the new type only
    T1 = type('OldStats', (nnx.Variable,), {})
    T2 = type('NewStats', (nnx.Variable,), {})
    nm = fresh + '_stats'
    with sut('register / overwrite'):
      variablelib.register_variable_name(nm, T1)
      require(variablelib.variable_name_from_type(T1) == nm,
              'registered type does not map to its name')
      expect_raises(ValueError,
                    lambda: variablelib.register_variable_name(nm, T2),
                    'registering a taken name without overwrite')
      variablelib.register_variable_name(nm, T2, overwrite=True)
    require(variablelib.variable_type_from_name(nm) is T2 and
            variablelib.variable_name_from_type(T2) == nm,
            'after overwrite the name and the new type are not inverse')
    try:
      n1 = variablelib.variable_name_from_type(T1, allow_register=True)
    except ValueError:
      n1 = None
    require(n1 != nm and (n1 is None or
                          variablelib.variable_type_from_name(n1) is T1),
            lambda: f'after {nm!r} was re-registered for NewStats the old type '
            f'still maps to {n1!r}, whose type is '
            f'{variablelib.VariableTypeCache.get(n1)}')
    with sut('conversion after overwrite'):
      lv = bv.nnx_attrs_to_linen_vars({'a': T2(jnp.ones(2)),
                                       'b': T1(jnp.zeros(2))})
    require(set(lv.get(nm, {})) == {'a'}, lambda: f'collection {nm!r} holds '
            f'{sorted(lv.get(nm, {}))} after the conversion; only the '
            'NewStats variable belongs there')
    ctx.note(nontrivial=len(V) >= 2 and has_part)
  finally:
    variablelib.VariableTypeCache.clear()
    variablelib.VariableTypeCache.update(saved)


# ----------------------------------------------------------------------------
class _Clash(nn.Module):
  @nn.compact
  def __call__(self, x):
    w = self.param('w', nn.initializers.ones, (x.shape[-1],))
    c = self.variable('counters', 'w', lambda: jnp.zeros((), jnp.int32))
    return x * w + c.value


@clause('known_probes', enum=lambda ctx: [['same-name-two-collections']],
        quick_shards=1, thorough_shards=1,
        rule='re-executes the recorded reproduction of the known finding (a '
        'Linen scope using one variable name in two collections, wrapped with '
        'ToNNX)')
def known_probes(case, ctx):
  x = jnp.ones((2, 3))
  mod = _Clash()
  V = mod.init(jax.random.key(0), x)
  y_ref = mod.apply(V, x)
  try:
    w = bridge.ToNNX(mod, rngs=nnx.Rngs(0))
    bridge.lazy_init(w, x)
    y = w(x)
    ok = close(y, y_ref)
  except Exception as e:  # noqa
    ok = False
  if not ok:
    raise Violation('ToNNX of a Linen module that uses the name "w" both in '
                    '"params" and in "counters" does not behave like the '
                    'module', key='C18:tonnx-same-name-two-collections')
