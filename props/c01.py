"""C01 — Linen init/apply are pure; explicit mutability contract."""
from __future__ import annotations

import numpy as np
from hypothesis import strategies as st

from harness.core import begin, clause, Violation, sut, require, expect_raises
from harness import linen_dsl as L

import jax
import jax.numpy as jnp
import flax
import flax.linen as nn
from flax import core as fcore
from flax import errors as ferrors
from flax.core import FrozenDict, freeze, unfreeze
from flax.core.scope import DenyList

begin('C01')

ASSUMPTIONS = [
    'programs are those expressible in the harness DSL (harness/linen_dsl.py):'
    ' compact and setup styles, Dense/param/counter/running-stat/sow/perturb/'
    'tanh ops, nested, re-called and shared sub-modules',
    'the reference for "which collections are returned" is the harness\' own '
    'membership function over (collections passed in) U (collections the '
    'program creates when mutable)',
]


# -- mutable filter encoding --------------------------------------------------
COLS = ['params', 'batch_stats', 'cache', 'counters', 'stats',
        'intermediates', 'aux', 'perturbations', 'unused']


def filter_strategy():
  name = st.sampled_from(COLS)
  names = st.lists(name, max_size=4, unique=True)
  return st.one_of(
      st.just({'t': 'false'}), st.just({'t': 'true'}),
      name.map(lambda n: {'t': 'str', 'v': n}),
      st.tuples(st.sampled_from(['list', 'tuple', 'set']), names).map(
          lambda t: {'t': t[0], 'v': t[1]}),
      name.map(lambda n: {'t': 'deny', 'v': {'t': 'str', 'v': n}}),
      names.map(lambda n: {'t': 'deny', 'v': {'t': 'list', 'v': n}}))


def build_filter(f):
  t = f['t']
  if t == 'false':
    return False
  if t == 'true':
    return True
  if t == 'str':
    return f['v']
  if t == 'list':
    return list(f['v'])
  if t == 'tuple':
    return tuple(f['v'])
  if t == 'set':
    return set(f['v'])
  if t == 'deny':
    return DenyList(build_filter(f['v']))
  raise AssertionError(t)


def in_ref(f, col):
  t = f['t']
  if t == 'false':
    return False
  if t == 'true':
    return True
  if t == 'str':
    return col == f['v']
  if t in ('list', 'tuple', 'set'):
    return col in f['v']
  if t == 'deny':
    return not in_ref(f['v'], col)
  raise AssertionError(t)


# -- snapshots ------------------------------------------------------------------
def snap(x):
  """ids + bytes of everything reachable through containers."""
  if isinstance(x, FrozenDict):
    return ('F', id(x), tuple((k, snap(v)) for k, v in x._dict.items()))
  if isinstance(x, dict):
    return ('D', id(x), tuple((k, snap(v)) for k, v in x.items()))
  if isinstance(x, (list, tuple)):
    return ('S', id(x), type(x).__name__, tuple(snap(v) for v in x))
  if isinstance(x, nn.Module):
    import dataclasses
    return ('M', id(x), type(x).__name__,
            tuple((f.name, snap(getattr(x, f.name)))
                  for f in dataclasses.fields(x) if f.name != 'parent'),
            id(x.scope) if x.scope is not None else None,
            repr(sorted(vars(x._state).items())) if hasattr(x, '_state') else '')
  if isinstance(x, (jax.Array, np.ndarray)):
    try:
      a = np.asarray(x)
    except Exception:  # typed key arrays
      a = np.asarray(jax.random.key_data(x))
    return ('A', id(x), str(a.dtype), a.shape, a.tobytes())
  return ('V', repr(x))


def container_ids(x, out):
  if isinstance(x, (dict, FrozenDict)):
    out.add(id(x))
    for v in (x._dict if isinstance(x, FrozenDict) else x).values():
      container_ids(v, out)
  elif isinstance(x, (list, tuple)):
    for v in x:
      container_ids(v, out)
  return out


def tree_eq(a, b):
  fa, fb = L.flat(a), L.flat(b)
  if set(fa) != set(fb):
    return False
  for k in fa:
    la, lb = jax.tree_util.tree_leaves(fa[k]), jax.tree_util.tree_leaves(fb[k])
    if len(la) != len(lb):
      return False
    for x, y in zip(la, lb):
      x, y = np.asarray(x), np.asarray(y)
      if x.dtype != y.dtype or x.shape != y.shape or x.tobytes() != y.tobytes():
        return False
  return True


def out_eq(a, b):
  a, b = np.asarray(a), np.asarray(b)
  return a.dtype == b.dtype and a.shape == b.shape and a.tobytes() == b.tobytes()


# -- reference: how often every op executes in one call ---------------------------
def exec_counts(case):
  """{(col, path): increments per top-level call} for counter ops."""
  counts = {}
  progs = case.get('shared', [])

  def names_of(prog):
    # replicate naming (compact auto-names / setup attribute names)
    res = []
    counters = {}
    lst_pos = 0
    for i, op in enumerate(prog['ops']):
      if op['op'] not in ('dense', 'sub'):
        res.append(None)
        continue
      if prog['style'] == 'setup':
        kind = op.get('attr', 'attr')
        if kind == 'list':
          n = f'lst_{lst_pos}'
          lst_pos += 1
        elif kind == 'dict':
          n = f'dct_k{i}'
        else:
          n = f'm{i}'
      else:
        n = op.get('name')
        if n is None:
          prefix = 'Dense' if op['op'] == 'dense' else L.class_name(op['prog'])
          c = counters.get(prefix, 0)
          counters[prefix] = c + 1
          n = f'{prefix}_{c}'
      res.append(n)
    return res

  def walk(prog, path, mult):
    names = names_of(prog)
    children = []
    for i, op in enumerate(prog['ops']):
      k = op['op']
      if k == 'counter':
        key = (op['col'], path + (op['name'],))
        counts[key] = counts.get(key, 0) + mult
      elif k == 'sub':
        children.append((op['prog'], path + (names[i],)))
        walk(op['prog'], path + (names[i],), mult * op.get('calls', 1))
      elif k == 'reuse' and children:
        p, pp = children[op['i'] % len(children)]
        walk(p, pp, mult)
      elif k == 'shared' and progs:
        j = op['j'] % len(progs)
        walk(progs[j], (L.shared_name(j, len(progs)),), mult)

  walk(case['prog'], (), 1)
  return counts


def program_cols(case, kinds):
  cols = set()
  for kind in kinds:
    for op in L.collect(case['prog'], kind, case):
      cols.add(op.get('col', 'perturbations' if kind == 'perturb' else None))
  if L.uses(case['prog'], ('dense', 'param'), case):
    cols.add('params')
  cols.discard(None)
  return cols


def is_reached(case):
  """Shared programs only matter if some 'shared' op exists."""
  return L.uses(case['prog'], ('shared',), case) and case.get('shared')


def effective_case(case):
  return L.normalize_case(case)


def c01_case():
  return st.tuples(L.case_strategy(allow=('counter', 'stat', 'sow', 'perturb',
                                          'tanh', 'shared', 'nested')),
                   filter_strategy(),
                   st.sampled_from(['dict', 'frozen', 'mixed', 'mixed']),
                   st.booleans(), st.integers(1, 3))


@clause('purity', strategy=c01_case, quick=500, thorough=30000,
        quick_shards=8, thorough_shards=16,
        rule='generated module programs (compact/setup, nested depth<=4, '
        'Dense/param/counter/stat/sow/perturb, re-called and shared children)'
        ' x mutable filter (False/True/name/list/tuple/set/DenyList) x '
        'variables as dict or FrozenDict x rngs as key or dict x 1-3 repeated '
        'calls on one module instance, through Module.init/init_with_output/'
        'apply and flax.core.apply; oracles: input snapshots, determinism, '
        'returned-collection key set, counter increments, no aliasing, '
        '(variables also as a plain dict holding FrozenDict collections) '
        'observation features inert; non-trivial = program has a stateful op '
        'and the filter is neither True nor False, or a child is shared/'
        're-called')
def purity(case, ctx):
  case, filt, frozen_in, rng_dict, ncalls = case
  case = effective_case(case)
  mod = L.make_root(case)
  x = L.make_input(case)
  key = jax.random.key(case['seed'])
  rngs = {'params': key} if rng_dict else key
  mutable = build_filter(filt)

  # ---- init: inputs untouched, deterministic ----
  s_mod, s_x, s_rng = snap(mod), snap(x), snap(rngs)
  with sut('init_with_output'):
    y0, v0 = mod.init_with_output(rngs, x)
    y0b, v0b = mod.init_with_output(rngs, x)
  require(snap(mod) == s_mod, 'init changed the module object')
  require(mod.scope is None, 'module bound to a scope after init')
  require(snap(x) == s_x and snap(rngs) == s_rng, 'init changed x or rngs')
  require(out_eq(y0, y0b) and tree_eq(v0, v0b), 'init is not deterministic')
  with sut('init'):
    v0c = mod.init(rngs, x)
  require(tree_eq(v0, v0c), 'init and init_with_output return different trees')

  # variables used for apply: drop observation collections
  base = {c: v0[c] for c in v0 if c not in ('intermediates', 'aux',
                                            'perturbations')}
  if frozen_in == 'frozen':
    variables = freeze(base)
  elif frozen_in == 'dict':
    variables = unfreeze(base)
  else:
    # plain dict at the top, every second collection a caller-held FrozenDict
    variables = {c: (freeze(unfreeze(base)[c]) if i % 2 == case['seed'] % 2
                     else unfreeze(base)[c])
                 for i, c in enumerate(sorted(base))}
  s_var = snap(variables)
  in_ids = container_ids(variables, set())

  created_cols = program_cols(case, ('counter', 'stat', 'sow', 'perturb'))
  state_cols = program_cols(case, ('counter', 'stat'))
  need = [c for c in state_cols if not in_ref(filt, c) and c not in variables]
  expect_keys = {c for c in set(variables.keys()) | created_cols
                 if in_ref(filt, c)}
  counts = exec_counts(case)

  results = []
  for call in range(ncalls):
    with sut('apply'):
      r = mod.apply(variables, x, mutable=mutable)
      require(mutable == build_filter(filt), lambda: 'apply changed the '
              f'`mutable` argument of the caller to {mutable!r}')
    require(snap(mod) == s_mod and mod.scope is None,
            f'apply (call {call}) changed the module object')
    require(snap(variables) == s_var, lambda: f'apply (call {call}) changed '
            f'the variables passed in (mutable={mutable!r})')
    require(snap(x) == s_x, 'apply changed its argument')
    if mutable is False:
      require(not isinstance(r, tuple), 'mutable=False must return a bare '
              'output')
      y, upd = r, None
    else:
      require(isinstance(r, tuple) and len(r) == 2,
              'mutable != False must return (output, updates)')
      y, upd = r
      got = set(upd.keys())
      require(got == expect_keys, lambda: f'apply(mutable={mutable!r}) '
              f'returned collections {sorted(got)}, expected '
              f'{sorted(expect_keys)} (passed in {sorted(variables.keys())}, '
              f'program creates {sorted(created_cols)})')
      # returned, not written in place / no aliasing with the input
      out_ids = container_ids(upd, set())
      require(not (out_ids & in_ids), 'returned collections alias the input '
              'variables')
      flat_upd = L.flat(upd)
      flat_in = L.flat(variables)
      for (col, path), inc in counts.items():
        if in_ref(filt, col):
          old = int(flat_in[(col,) + path]) if (col,) + path in flat_in else 0
          newv = int(flat_upd[(col,) + path])
          require(newv == old + inc, lambda: f'counter {col}/{path}: '
                  f'{old} -> {newv}, reference says +{inc} per call')
      # immutable collections must not show up, mutable untouched ones must
      # come back unchanged
      for c in got:
        if c in variables and c not in state_cols and c not in (
            'intermediates', 'aux', 'perturbations'):
          require(tree_eq(upd[c], variables[c]), lambda: f'collection {c} '
                  'matched `mutable`, was not written, but changed')
    results.append((y, upd))
  for (y, upd) in results[1:]:
    require(out_eq(y, results[0][0]), 'repeated apply gives different output')
    if upd is not None:
      require(tree_eq(upd, results[0][1]), 'repeated apply gives different '
              'updates')
  y_ref, upd_ref = results[0]

  # mutating what apply returned must not leak into a later call
  if upd_ref is not None and not isinstance(upd_ref, FrozenDict):
    def scribble(d):
      for k in list(d.keys()):
        if isinstance(d[k], dict):
          scribble(d[k])
        else:
          d[k] = 'SCRIBBLED'
    try:
      scribble(upd_ref)
    except TypeError:
      pass
    with sut('apply after scribble'):
      r = mod.apply(variables, x, mutable=mutable)
      require(mutable == build_filter(filt), lambda: 'apply changed the '
              f'`mutable` argument of the caller to {mutable!r}')
    require(out_eq(r[0], y_ref), 'mutating the returned collections changed '
            'a later apply on the original variables')
    require(snap(variables) == s_var, 'returned collections share structure '
            'with the input variables')

  # functional core agrees
  def core_fn(scope, xx):
    return L.make_module(case['prog'], case['dim'],
                         shared=tuple(L.make_module(p, case['dim'],
                                                    parent=None)
                                      for p in case.get('shared', [])),
                         parent=scope)(xx)
  if not case.get('shared'):
    with sut('flax.core.apply'):
      rc = fcore.apply(core_fn, mutable=mutable)(variables, x)
    yc = rc if mutable is False else rc[0]
    require(out_eq(yc, y_ref), 'flax.core.apply output differs from '
            'Module.apply')
    require(snap(variables) == s_var, 'flax.core.apply changed its input')
    if mutable is not False:
      require(set(rc[1].keys()) == expect_keys, lambda: 'flax.core.apply '
              f'returned {sorted(rc[1].keys())}, expected '
              f'{sorted(expect_keys)}')

    # the functional core's own `flags` argument: a caller-held mapping is
    # an input like any other (never written), the scope sees its entries,
    # 'initializing' is set during init only, and reusing the same mapping
    # for init, apply, init again gives the same results every time
    flag_form = case['seed'] % 3
    flags = [None, {}, {'tag': case['seed']}][flag_form]
    s_flags = snap(flags)
    seen = []

    def flag_fn(scope, xx):
      seen.append((scope.get_flag('initializing', None),
                   scope.get_flag('tag', None)))
      return core_fn(scope, xx)
    rngs_c = rngs if isinstance(rngs, dict) else {'params': rngs}
    with sut('flax.core.init(flags=...)'):
      yi, vi = fcore.init(flag_fn, flags=flags)(rngs_c, x)
    require(snap(flags) == s_flags, lambda: 'flax.core.init changed the '
            f'caller\'s flags mapping to {flags!r}')
    with sut('flax.core.apply(flags=...)'):
      rc2 = fcore.apply(flag_fn, mutable=mutable, flags=flags)(variables, x)
    require(snap(flags) == s_flags, lambda: 'flax.core.apply changed the '
            f'caller\'s flags mapping to {flags!r}')
    with sut('flax.core.init(flags=...) again'):
      yi2, vi2 = fcore.init(flag_fn, flags=flags)(rngs_c, x)
    tag = case['seed'] if flag_form == 2 else None
    require(seen == [(True, tag), (None, tag), (True, tag)], lambda: 'flags '
            f'seen by the scope during init, apply, init: {seen} (caller '
            f'passed {flags!r})')
    require(out_eq(yi, yi2) and tree_eq(vi, vi2), 'flax.core.init with the '
            'same flags mapping is not deterministic')
    require(out_eq(rc2 if mutable is False else rc2[0], y_ref),
            'flax.core.apply(flags=...) output differs from Module.apply')
    require(snap(variables) == s_var and snap(x) == s_x,
            'flax.core.init/apply with flags changed its inputs')

  stateful = bool(state_cols) or L.uses(case['prog'], ('sow',), case)
  shared_or_recalled = bool(case.get('shared')) or any(
      op.get('calls', 1) > 1 for op in L.collect(case['prog'], 'sub', case)) \
      or L.uses(case['prog'], ('reuse',), case)
  ctx.note(labels=['filter:' + filt['t'],
                   f'vars:{frozen_in}',
                   'shared' if case.get('shared') else 'noshared',
                   'stateful' if stateful else 'stateless',
                   f'cols{min(len(created_cols), 4)}'],
           nontrivial=(stateful and filt['t'] not in ('true', 'false'))
           or shared_or_recalled)


# ----------------------------------------------------------------------------
def write_case():
  return st.tuples(
      L.case_strategy(allow=('counter', 'stat', 'tanh'), max_depth=2,
                      styles=('compact',)),
      filter_strategy(),
      st.sampled_from(['write', 'counter', 'stat']),
      st.sampled_from(['batch_stats', 'cache', 'counters', 'params']),
      st.integers(0, 3), st.booleans())


def insert_op(prog, op, depth):
  """Insert `op` at the end of the module `depth` levels down (first subs)."""
  if depth > 0:
    for i, o in enumerate(prog['ops']):
      if o['op'] == 'sub' and o['prog']['style'] == 'compact':
        ops = list(prog['ops'])
        ops[i] = dict(o, prog=insert_op(o['prog'], op, depth - 1))
        return dict(prog, ops=ops)
  return dict(prog, ops=list(prog['ops']) + [op])


@clause('immutable_writes', strategy=write_case, quick=400, thorough=20000,
        quick_shards=4,
        rule='a write (put_variable / counter update / new variable) to a '
        'collection is injected somewhere in a generated program; when the '
        'collection is outside `mutable` apply must raise '
        '(ModifyScopeVariableError or the documented not-found errors) and '
        'leave every input untouched; when inside, it must succeed and return '
        'the value; non-trivial = filter is a name/list/DenyList form')
def immutable_writes(case, ctx):
  case, filt, kind, col, depth, frozen_in = case
  case = effective_case(case)
  name = 'zz_written'
  base_mod = L.make_root(case)
  x = L.make_input(case)
  key = jax.random.key(case['seed'])
  with sut('init'):
    v0 = base_mod.init(key, x)
  variables = freeze(v0) if frozen_in else unfreeze(v0)
  op = {'write': {'op': 'write', 'col': col, 'name': name},
        'counter': {'op': 'counter', 'col': col, 'name': name},
        'stat': {'op': 'stat', 'col': col, 'name': name, 'm': 0.5}}[kind]
  case2 = dict(case, prog=insert_op(case['prog'], op, depth))
  mod = L.make_root(case2)
  mutable = build_filter(filt)
  s_var, s_mod, s_x = snap(variables), snap(mod), snap(x)
  allowed = in_ref(filt, col)
  if allowed:
    with sut('apply with permitted write'):
      y, upd = mod.apply(variables, x, mutable=mutable)
    flat_upd = L.flat(upd)
    hits = [p for p in flat_upd if p[0] == col and p[-1] == name]
    require(len(hits) == 1, lambda: f'permitted write to {col}/{name} is not '
            f'in the returned collections: {sorted(flat_upd)}')
  else:
    errs = (ferrors.ModifyScopeVariableError,
            ferrors.ScopeCollectionNotFound,
            ferrors.ScopeVariableNotFoundError)
    e = expect_raises(errs, lambda: mod.apply(variables, x, mutable=mutable),
                      f'{kind} to immutable collection {col!r} with mutable='
                      f'{mutable!r}')
    if kind == 'write':
      require(isinstance(e, ferrors.ModifyScopeVariableError), lambda: 'put_'
              f'variable on an immutable collection raised {type(e).__name__}')
  require(snap(variables) == s_var, 'variables changed by a (rejected) write')
  require(snap(mod) == s_mod and mod.scope is None, 'module changed')
  require(snap(x) == s_x, 'argument changed')
  ctx.note(labels=[kind, 'allowed' if allowed else 'rejected',
                   'filter:' + filt['t']],
           nontrivial=filt['t'] not in ('true', 'false'))


# ----------------------------------------------------------------------------
# a parent overwrites the state subtree of a child it keeps calling
# ----------------------------------------------------------------------------
class WChild(nn.Module):
  depth: int = 0

  @nn.compact
  def __call__(self, x):
    n = self.variable('state', 'n', lambda: jnp.zeros((), jnp.int32))
    if self.is_mutable_collection('state'):
      n.value = n.value + 1
    y = x * (1.0 + n.value.astype(x.dtype))
    if self.depth > 0:
      y = WChild(self.depth - 1, name='inner')(y)
    return y


class WParent(nn.Module):
  plan: tuple = ()
  depth: int = 0
  form: str = 'dict'

  @nn.compact
  def __call__(self, x):
    child = WChild(self.depth, name='counter')
    for op in self.plan:
      if op == 'call':
        x = child(x)
      elif self.is_mutable_collection('state') and self.has_variable(
          'state', 'counter'):
        val = {'n': jnp.asarray(5, jnp.int32)}
        node = val
        for _ in range(self.depth):
          node['inner'] = {'n': jnp.asarray(5, jnp.int32)}
          node = node['inner']
        if self.form == 'frozen':
          val = freeze(val)
        elif self.form == 'proxy':
          import types as _t
          val = _t.MappingProxyType(val)
        self.put_variable('state', 'counter', val)
    return x


@clause('subtree_writes',
        strategy=lambda: st.tuples(
            st.lists(st.sampled_from(['call', 'call', 'reset']), min_size=1,
                     max_size=6), st.integers(0, 2),
            st.sampled_from(['dict', 'frozen', 'frozen']),
            st.sampled_from([True, ['state'], False]), st.integers(0, 2**16)),
        quick=200, thorough=8000, quick_shards=4,
        rule='a parent module calls a child (with 0-2 nested levels of '
        'counters) and, in between, overwrites the child\'s whole state '
        'subtree with put_variable, the value given as a dict or as a '
        'FrozenDict: every later call of the child sees the written values, '
        'and what apply returns equals a Python model of the counters; non-'
        'trivial = a call follows a write that follows a call')
def subtree_writes(case, ctx):
  plan, depth, form, mutable, seed = case
  plan = ('call',) + tuple(plan)     # the child exists before any write
  mod = WParent(plan=plan, depth=depth, form=form)
  x = jnp.asarray(np.random.default_rng(seed).normal(size=(2,)), jnp.float32)
  with sut('init'):
    v = mod.init(jax.random.key(0), x)
  base = jax.tree_util.tree_map(lambda a: a * 0, unfreeze(v))
  with sut('apply'):
    r = mod.apply(base, x, mutable=mutable)
  # model: one counter per level, all levels move together
  n, y = 0, np.asarray(x, np.float32)
  for op in plan:
    if op == 'call':
      if mutable is not False:
        n += 1
      for _ in range(depth + 1):
        y = y * np.float32(1.0 + n)
    elif mutable is not False:
      n = 5
  if mutable is False:
    require(np.allclose(np.asarray(r), y, rtol=1e-6), 'output differs')
  else:
    out, upd = r
    require(np.allclose(np.asarray(out), y, rtol=1e-6), lambda: f'output '
            f'{np.asarray(out)} differs from the model {y}: a value written '
            f'with put_variable (given as {form}) was not seen by the child '
            f'(plan {plan})')
    node = unfreeze(upd)['state']['counter']
    for lvl in range(depth + 1):
      require(int(node['n']) == n, lambda: f'returned state at level {lvl} '
              f'is {int(node["n"])}, the model says {n} (plan {plan}, value '
              f'given as {form})')
      node = node.get('inner', {})
  idx = [i for i, o in enumerate(plan) if o == 'reset']
  nt = any(('call' in plan[:i]) and ('call' in plan[i + 1:]) for i in idx)
  ctx.note(labels=[form, f'depth{depth}'], nontrivial=nt and mutable
           is not False)


# ----------------------------------------------------------------------------
@clause('method_forms',
        strategy=lambda: st.tuples(
            L.case_strategy(allow=('counter', 'stat', 'sow', 'tanh',
                                   'shared')), filter_strategy()),
        quick=250, thorough=12000, quick_shards=4,
        rule='the entry point given to init / init_with_output / apply as '
        'method=None, the string "__call__", the unbound function '
        'Class.__call__, or a second method (by name and as a function, with '
        'a keyword argument): the default spellings return bit-identical '
        'outputs, variables and updates; the second method returns what its '
        'body computes from __call__; an entry point that writes a new '
        'collection after __call__ returned gets it back; inputs stay '
        'untouched; non-trivial = '
        'program has state and the filter is neither True nor False')
def method_forms(case, ctx):
  case, filt = case
  case = effective_case(case)
  mod = L.make_root(case)
  x = L.make_input(case)
  key = jax.random.key(case['seed'])
  mutable = build_filter(filt)
  cls = type(mod)
  with sut('init'):
    y0, v0 = mod.init_with_output(key, x)
  base = {c: v0[c] for c in v0 if c not in ('intermediates', 'aux',
                                            'perturbations')}
  s_mod, s_x, s_v = snap(mod), snap(x), snap(base)
  with sut('apply'):
    r0 = mod.apply(base, x, mutable=mutable)
  def split(r):
    return (r[0], r[1]) if mutable is not False else (r, {})
  y_ref, u_ref = split(r0)
  for how, meth in (('str', '__call__'), ('fn', cls.__call__)):
    with sut(f'init(method={how})'):
      y1, v1 = mod.init_with_output(key, x, method=meth)
      v1b = mod.init(key, x, method=meth)
    require(out_eq(y0, y1) and tree_eq(v0, v1) and tree_eq(v0, v1b),
            lambda: f'init with method given as {how} differs from the '
            'default entry point')
    with sut(f'apply(method={how})'):
      y, u = split(mod.apply(base, x, mutable=mutable, method=meth))
    require(out_eq(y_ref, y) and tree_eq(u_ref, u), lambda: 'apply with '
            f'method given as {how} differs from the default entry point')
  for how, meth in (('str', 'scaled'), ('fn', cls.scaled)):
    with sut(f'apply(method=scaled as {how})'):
      y, u = split(mod.apply(base, x, mutable=mutable, method=meth))
      y3, u3 = split(mod.apply(base, x, mutable=mutable, method=meth, k=3.0))
      v2 = mod.init(key, x, method=meth)
    require(out_eq(np.asarray(y_ref) * 2.0, y) and tree_eq(u_ref, u),
            lambda: f'apply(method=scaled given as {how}) is not 2 * '
            '__call__ with the same updates')
    require(out_eq(np.asarray(y_ref) * 3.0, y3) and tree_eq(u_ref, u3),
            lambda: f'apply(method=scaled given as {how}, k=3.0) is not 3 * '
            '__call__ with the same updates')
    require(tree_eq(v0, v2), lambda: f'init(method=scaled given as {how}) '
            'creates different variables')
  # an entry point that creates a collection after __call__ has returned
  with sut('init(method=then_put)'):
    y5, v5 = mod.init_with_output(key, x, method='then_put')
  # (the sum may cancel: tolerance relative to the magnitude of the terms)
  tol_sum = lambda y: 1e-5 * (1.0 + float(np.sum(np.abs(np.asarray(y)))))
  require('late' in v5 and np.allclose(np.asarray(v5['late']['v']),
                                       np.sum(np.asarray(y5)), rtol=1e-5,
                                       atol=tol_sum(y5)),
          lambda: f'init(method=then_put) returned collections {sorted(v5)}: '
          'the collection written after __call__ returned is missing or wrong')
  require(tree_eq({c: v5[c] for c in v5 if c != 'late'}, v0), 'init(method='
          'then_put) changed the other collections')
  with sut('apply(method=then_put)'):
    y6, u6 = mod.apply(base, x, mutable=['late'], method=cls.then_put)
  require(set(u6) == {'late'} and np.allclose(
      np.asarray(u6['late']['v']), np.sum(np.asarray(y6)), rtol=1e-5,
      atol=tol_sum(y6)),
          lambda: f'apply(mutable=[late], method=then_put) returned {sorted(u6)}')
  require(snap(mod) == s_mod and snap(x) == s_x and snap(base) == s_v,
          'an entry-point form changed the module, the input or the variables')
  stateful = L.uses(case['prog'], ('counter', 'stat', 'sow'), case)
  ctx.note(labels=['stateful' if stateful else 'stateless'],
           nontrivial=stateful and filt['t'] not in ('true', 'false'))


# ----------------------------------------------------------------------------
@clause('observation_inert',
        strategy=lambda: st.tuples(
            L.case_strategy(allow=('counter', 'stat', 'sow', 'perturb', 'tanh',
                                   'shared', 'nested')),
            st.sampled_from(['none', 'true', 'fn']), filter_strategy()),
        quick=400, thorough=20000, quick_shards=4,
        rule='paired runs: a program with sow/perturb ops and capture_'
        'intermediates (off / True / filter fn) vs the same program with those '
        'ops removed and the flag off; primary outputs must be bit-equal, sow '
        'returns False and stores nothing when its collection is immutable; '
        'non-trivial = program has >=1 sow/perturb op or capture is on')
def observation_inert(case, ctx):
  case, capture, filt = case
  case = effective_case(case)
  obs_kinds = ('sow', 'perturb')
  stripped = dict(case, prog=L.strip(case['prog'], obs_kinds),
                  shared=[L.strip(p, obs_kinds) for p in case.get('shared', [])])
  mod, mod_s = L.make_root(case), L.make_root(stripped)
  x = L.make_input(case)
  key = jax.random.key(case['seed'])
  with sut('init'):
    y_i, v = mod.init_with_output(key, x)
    y_is, v_s = mod_s.init_with_output(key, x)
  require(out_eq(y_i, y_is), 'sow/perturb ops changed the output of init')
  obs_cols = ('intermediates', 'aux', 'perturbations')
  base = {c: v[c] for c in v if c not in obs_cols}
  require(tree_eq(base, {c: v_s[c] for c in v_s if c not in obs_cols}),
          'sow/perturb ops changed the variables created by init')
  mutable = build_filter(filt)
  cap = {'none': False, 'true': True,
         'fn': (lambda m, name: 'A' in type(m).__name__)}[capture]
  with sut('apply'):
    r = mod.apply(base, x, mutable=mutable, capture_intermediates=cap)
    require(mutable == build_filter(filt) and type(mutable) is type(
        build_filter(filt)), lambda: f'apply(capture_intermediates={capture}) '
            f'changed the `mutable` argument of the caller to {mutable!r}')
    r_s = mod_s.apply(base, x, mutable=mutable)
  # capture_intermediates makes 'intermediates' mutable, so r is a tuple even
  # with mutable=False
  r_is_tuple = mutable is not False or cap is not False
  y = r[0] if r_is_tuple else r
  y_s = r_s[0] if mutable is not False else r_s
  require(out_eq(y, y_s), lambda: 'observation features changed the primary '
          f'output (capture_intermediates={capture}, mutable={mutable!r})')
  if mutable is not False:
    upd, upd_s = r[1], r_s[1]
    for c in upd_s:
      if c not in obs_cols:
        require(c in upd and tree_eq(upd[c], upd_s[c]), lambda: 'observation '
                f'features changed the updates of collection {c}')
    sow_cols = {op['col'] for op in L.collect(case['prog'], 'sow', case)}
    for c in sow_cols:
      if not in_ref(filt, c) and not (cap is not False
                                      and c == 'intermediates'):
        require(c not in upd, f'sow wrote to immutable collection {c}')
  has_obs = L.uses(case['prog'], obs_kinds, case)
  ctx.note(labels=['capture:' + capture, 'obs' if has_obs else 'noobs'],
           nontrivial=has_obs or capture != 'none')
