"""C16 — flatten/unflatten and NNX State conversions are mutual inverses."""
from __future__ import annotations

import numpy as np
from hypothesis import strategies as st

from harness.core import begin, clause, Violation, sut, require, expect_raises

import jax.numpy as jnp
import flax
from flax import traverse_util
from flax.core import FrozenDict, freeze, unfreeze
from flax import nnx
from flax.nnx import traversals, statelib

begin('C16')

ASSUMPTIONS = [
    'separators are drawn from strings that occur in no key; an is_leaf '
    'predicate true at the root is excluded (unflatten cannot consume key ())',
    'State sub-clauses use States without empty sub-mappings and without '
    'digit-only string keys (flax int-converts those on purpose)',
]

KEYS = ['a', 'b', 'c', 'ab', '', 'é', '0', '10', 'A', 'params']
SEPS = ['/', '.', '::', '|', '\x00']

# Case encoding of a nested dict:
#   {"d": [[key, node], ...], "frozen": bool} | {"leaf": <int|list|None|...>}


def node_strategy(keys=KEYS, allow_frozen=True, allow_empty=True, depth=4):
  leaf = st.one_of(
      st.integers(-3, 3).map(lambda i: {'leaf': i}),
      st.just({'leaf': None}),
      st.lists(st.integers(0, 3), max_size=2).map(lambda l: {'leaf': l}),
      st.integers(0, 3).map(lambda i: {'arr': i}),
  )
  def ext(inner):
    return st.tuples(
        st.lists(st.tuples(st.sampled_from(keys), inner),
                 min_size=0 if allow_empty else 1, max_size=4,
                 unique_by=lambda kv: kv[0]),
        st.booleans() if allow_frozen else st.just(False),
    ).map(lambda t: {'d': [list(kv) for kv in t[0]], 'frozen': t[1]})
  tree = st.recursive(leaf, ext, max_leaves=10)
  # root must be a dict
  return ext(tree)


def build(n):
  if 'leaf' in n:
    v = n['leaf']
    return tuple(v) if isinstance(v, list) and len(v) == 2 else v
  if 'arr' in n:
    return np.arange(n['arr'], dtype=np.int32)
  d = {k: build(v) for k, v in n['d']}
  return FrozenDict(d) if n.get('frozen') else d


def is_map(x):
  return isinstance(x, (dict, FrozenDict))


def deep_eq(a, b):
  """Structural equality, FrozenDict == dict by content, arrays by bytes."""
  if is_map(a) or is_map(b):
    if not (is_map(a) and is_map(b)):
      return False
    if set(a.keys()) != set(b.keys()):
      return False
    return all(deep_eq(a[k], b[k]) for k in a.keys())
  if isinstance(a, np.ndarray) or isinstance(b, np.ndarray):
    return (isinstance(a, np.ndarray) and isinstance(b, np.ndarray)
            and a.dtype == b.dtype and a.shape == b.shape
            and a.tobytes() == b.tobytes())
  return type(a) == type(b) and a == b


def same_leaf(a, b):
  # FrozenDict re-wraps nested dicts on every access, so mapping-valued
  # leaves (is_leaf stops) are compared structurally, everything else by id.
  if is_map(a) or is_map(b):
    return deep_eq(a, b)
  return a is b


def make_is_leaf(spec):
  if spec is None:
    return None
  kind, v = spec
  if kind == 'depth':
    return lambda prefix, xs: len(prefix) >= v
  if kind == 'keys':
    return lambda prefix, xs: len(prefix) >= 1 and prefix[-1] in v
  raise AssertionError(kind)


def ref_flatten(d, keep_empty, is_leaf, order=None):
  """Independent reference: list of (path, value|EMPTY) in DFS order."""
  EMPTY = ref_flatten.EMPTY
  out = []
  def rec(x, prefix):
    if not is_map(x) or (is_leaf is not None and is_leaf(prefix, x)):
      out.append((prefix, x))
      return
    ks = list(x.keys())
    if not ks:
      if keep_empty and prefix != ():
        out.append((prefix, EMPTY))
      return
    for k in ks:
      rec(x[k], prefix + (k,))
  rec(d, ())
  return out
ref_flatten.EMPTY = object()


def ref_prune(d, is_leaf, prefix=()):
  """d with empty sub-dicts removed recursively (respecting is_leaf leaves)."""
  if not is_map(d) or (is_leaf is not None and prefix != ()
                       and is_leaf(prefix, d)):
    return d
  out = {}
  for k in d.keys():
    v = d[k]
    p = prefix + (k,)
    if is_map(v) and not (is_leaf is not None and is_leaf(p, v)):
      pv = ref_prune(v, is_leaf, p)
      if len(pv) == 0:
        continue
      out[k] = pv
    else:
      out[k] = v
  return out


def _flat_case():
  is_leaf = st.one_of(
      st.none(),
      st.integers(1, 3).map(lambda d: ['depth', d]),
      st.lists(st.sampled_from(KEYS), min_size=1, max_size=3).map(
          lambda ks: ['keys', ks]))
  return st.tuples(node_strategy(), st.booleans(),
                   st.one_of(st.none(), st.sampled_from(SEPS)), is_leaf,
                   st.sampled_from(['traverse_util', 'nnx']))


def _has_empty(n):
  if 'd' not in n:
    return False
  return len(n['d']) == 0 or any(_has_empty(v) for _, v in n['d'])


@clause('flatten_roundtrip', strategy=_flat_case, quick=4000, thorough=300000,
        rule='random nested dicts (depth<=5, keys incl. empty/unicode/digit '
        'strings, dict and FrozenDict nodes, empty sub-dicts, int/None/list/'
        'tuple/array leaves) x keep_empty_nodes x sep x is_leaf x '
        '{flatten_dict, flatten_mapping}; flat form vs independent reference '
        'and unflatten(flatten(d)) vs d / prune_empty(d); non-trivial = depth'
        '>=2 and (empty node or is_leaf or sep)')
def flatten_roundtrip(case, ctx):
  n, keep_empty, sep, leaf_spec, api = case
  d = build(n)
  is_leaf = make_is_leaf(leaf_spec)
  if api == 'traverse_util':
    fl = lambda: traverse_util.flatten_dict(
        d, keep_empty_nodes=keep_empty, is_leaf=is_leaf, sep=sep)
    unfl = lambda x: traverse_util.unflatten_dict(x, sep=sep)
    EMPTY = traverse_util.empty_node
  else:
    fl = lambda: traversals.flatten_mapping(
        d, keep_empty_nodes=keep_empty, is_leaf=is_leaf, sep=sep)
    unfl = lambda x: traversals.unflatten_mapping(x, sep=sep)
    EMPTY = traversals.empty_node
  with sut('flatten'):
    flat = fl()
  ref = ref_flatten(d, keep_empty, is_leaf)
  key = (lambda p: p) if sep is None else (lambda p: sep.join(p))
  require(list(flat.keys()) == [key(p) for p, _ in ref],
          lambda: f'flat keys {list(flat.keys())} != reference '
          f'{[key(p) for p, _ in ref]}')
  for p, v in ref:
    got = flat[key(p)]
    if v is ref_flatten.EMPTY:
      require(got is EMPTY, f'empty node at {p} flattened to {got!r}')
    else:
      require(same_leaf(got, v), f'leaf at {p} is not the original object')
  with sut('unflatten'):
    back = unfl(flat)
  expect = d if keep_empty else ref_prune(d, is_leaf)
  require(deep_eq(back, expect), lambda: f'unflatten(flatten(d)) = {back!r} '
          f'!= {"d" if keep_empty else "prune_empty(d)"} = {expect!r} '
          f'(keep_empty={keep_empty}, sep={sep!r}, is_leaf={leaf_spec})')
  def depth(x):
    return 1 + max([depth(v) for _, v in x['d']] + [0]) if 'd' in x else 0
  ctx.note(labels=[api, f'keep{int(keep_empty)}',
                   'sep' if sep else 'nosep',
                   'isleaf' if leaf_spec else 'noleaf',
                   'empty' if _has_empty(n) else 'noempty'],
           nontrivial=depth(n) >= 2 and (_has_empty(n) or leaf_spec is not None
                                         or sep is not None))


@clause('flatten_to_sequence',
        strategy=lambda: st.tuples(node_strategy(), st.one_of(
            st.none(), st.integers(1, 3).map(lambda d: ['depth', d]))),
        quick=2000, thorough=100000,
        rule='random nested dicts x is_leaf; flatten_to_sequence vs reference '
        'DFS order, unflatten_mapping of it vs prune_empty(d); non-trivial = '
        'depth>=2')
def flatten_to_sequence(case, ctx):
  n, leaf_spec = case
  d = build(n)
  is_leaf = make_is_leaf(leaf_spec)
  with sut('flatten_to_sequence'):
    seq = traversals.flatten_to_sequence(d, is_leaf=is_leaf)
  ref = ref_flatten(d, False, is_leaf)
  require([p for p, _ in seq] == [p for p, _ in ref]
          and all(same_leaf(a[1], b[1]) for a, b in zip(seq, ref)),
          lambda: f'flatten_to_sequence {seq!r} != reference {ref!r}')
  with sut('unflatten_mapping(seq)'):
    back = traversals.unflatten_mapping(seq)
  require(deep_eq(back, ref_prune(d, is_leaf)), 'round trip via sequence')
  ctx.note(nontrivial=len(seq) >= 2)


@clause('path_aware_map', strategy=lambda: node_strategy(allow_frozen=True),
        quick=2000, thorough=100000,
        rule='random nested dicts; f records (path, value); each leaf visited '
        'exactly once with its full path, structure incl. empty sub-dicts '
        'preserved; non-trivial = >=2 leaves and depth>=2')
def path_aware_map(case, ctx):
  d = build(case)
  calls = []
  def f(path, v):
    calls.append((path, v))
    return ('mapped', path)
  with sut('path_aware_map'):
    out = traverse_util.path_aware_map(f, d)
  ref = ref_flatten(d, True, None)
  leaves = [(p, v) for p, v in ref if v is not ref_flatten.EMPTY]
  require(len(calls) == len(leaves), lambda: f'f called {len(calls)} times '
          f'for {len(leaves)} leaves')
  require(sorted(p for p, _ in calls) == sorted(p for p, _ in leaves),
          'paths passed to f differ from leaf paths')
  bypath = dict(leaves)
  for p, v in calls:
    require(same_leaf(bypath[p], v),
            f'value passed to f at {p} is not the leaf')
  def expect(x, prefix):
    if is_map(x):
      return {k: expect(x[k], prefix + (k,)) for k in x.keys()}
    return ('mapped', prefix)
  require(deep_eq(out, expect(d, ())), lambda: f'structure changed: {out!r}')
  ctx.note(nontrivial=len(leaves) >= 2 and any(len(p) >= 2 for p, _ in leaves),
           labels=['empty' if _has_empty(case) else 'noempty'])


# ----------------------------------------------------------------------------
# NNX State conversions
# ----------------------------------------------------------------------------
SKEYS = ['a', 'b', 'c', 'ab', 'B', 'layer']


def state_tree(depth=3):
  """Nested dict without empty nodes; each dict all-str or all-int keys."""
  leaf = st.tuples(st.sampled_from(['param', 'bstat', 'vstate', 'arr', 'int']),
                   st.integers(0, 9)).map(lambda t: {'leaf': list(t)})
  def ext(inner):
    skeys = st.lists(st.tuples(st.sampled_from(SKEYS), inner), min_size=1,
                     max_size=3, unique_by=lambda kv: kv[0])
    ikeys = st.lists(st.tuples(st.integers(0, 11), inner), min_size=1,
                     max_size=3, unique_by=lambda kv: kv[0])
    return st.one_of(skeys, ikeys).map(
        lambda kvs: {'d': [list(kv) for kv in kvs]})
  return ext(st.recursive(leaf, ext, max_leaves=8))


def sbuild(n):
  if 'leaf' in n:
    kind, v = n['leaf']
    if kind == 'param':
      return nnx.Param(jnp.asarray(v))
    if kind == 'bstat':
      return nnx.BatchStat(jnp.asarray(v), tag='t')
    if kind == 'vstate':
      return nnx.Param(jnp.asarray(v)).to_state()
    if kind == 'arr':
      return jnp.asarray(v)
    return v
  return {k: sbuild(v) for k, v in n['d']}


def flat_model(d, prefix=()):
  out = {}
  for k, v in d.items():
    if isinstance(v, dict):
      out.update(flat_model(v, prefix + (k,)))
    else:
      out[prefix + (k,)] = v
  return out


def raw(state):
  return state.raw_mapping if isinstance(state, statelib.State) else state


def same_tree(a, b):
  """Nested mappings equal with leaves compared by identity."""
  a, b = raw(a), raw(b)
  am, bm = isinstance(a, (dict, statelib.State)), isinstance(b, (dict, statelib.State))
  if am or bm:
    if not (am and bm) or set(a.keys()) != set(b.keys()):
      return False
    return all(same_tree(a[k], b[k]) for k in a.keys())
  return a is b


def leafval(x):
  return int(x.value) if hasattr(x, 'value') else int(x)


@clause('state_conversions', strategy=state_tree, quick=2000, thorough=100000,
        rule='random nested States (str-keyed and int-keyed levels, Variable/'
        'VariableState/array/int leaves): from_flat(to_flat(s)) is s leaf-by-'
        'leaf, flat keys sorted, to_pure_dict/replace_by_pure_dict round trip '
        '(full and partial pure dicts), '
        'unknown key rejected; non-trivial = >=3 leaves over >=2 levels')
def state_conversions(case, ctx):
  d = sbuild(case)
  model = flat_model(d)
  with sut('State/to_flat_state'):
    s = statelib.State(d)
    fs = statelib.to_flat_state(s)
  require(list(fs.paths) == sorted(model), lambda: f'flat paths '
          f'{list(fs.paths)} != sorted {sorted(model)}')
  for p, v in fs:
    require(v is model[p], f'flat leaf at {p} is not the original')
  with sut('from_flat_state'):
    s2 = statelib.from_flat_state(fs)
    s3 = statelib.from_flat_state(dict(fs))
    s4 = fs.to_nested_state()
  for x in (s2, s3, s4):
    require(same_tree(x, d), lambda: f'from_flat_state(to_flat_state(s)) != s')
  # pure dict
  with sut('to_pure_dict'):
    pure = statelib.to_pure_dict(s)
  pm = flat_model(pure)
  require(set(pm) == set(model), 'to_pure_dict changed the key paths')
  for p in model:
    require(not hasattr(pm[p], 'value') and leafval(pm[p]) == leafval(model[p]),
            f'to_pure_dict value at {p}')
  before = {p: (type(v), leafval(v)) for p, v in model.items()}
  with sut('replace_by_pure_dict(identity)'):
    statelib.replace_by_pure_dict(s, pure)
  after = dict(statelib.to_flat_state(s))
  require(set(after) == set(model), 'replace_by_pure_dict changed the paths')
  for p in model:
    require((type(after[p]), leafval(after[p])) == before[p],
            f'replace_by_pure_dict(identity) changed leaf at {p}')
  # replace with new values (+100)
  def bump(x):
    return {k: bump(v) if isinstance(v, dict) else v + 100
            for k, v in x.items()}
  with sut('replace_by_pure_dict(+100)'):
    statelib.replace_by_pure_dict(s, bump(pure))
  after = dict(statelib.to_flat_state(s))
  for p in model:
    require(type(after[p]) is before[p][0] or before[p][0] is int
            or not hasattr(model[p], 'value'),
            f'leaf type changed at {p}')
    require(leafval(after[p]) == before[p][1] + 100,
            f'replace_by_pure_dict did not set value at {p}')
  # a partial pure dict (every second leaf path, +1000) changes exactly the
  # named leaves and keeps every other entry of the State
  part_paths = sorted(model, key=repr)[::2]
  partial = {}
  for p in part_paths:
    dd = partial
    for k in p[:-1]:
      dd = dd.setdefault(k, {})
    dd[p[-1]] = before[p][1] + 1100
  with sut('replace_by_pure_dict(partial)'):
    statelib.replace_by_pure_dict(s, partial)
  after = dict(statelib.to_flat_state(s))
  require(set(after) == set(model), lambda: 'replace_by_pure_dict with a '
          f'partial pure dict {sorted(part_paths, key=repr)} changed the '
          f'paths of the State: {sorted(after, key=repr)} vs '
          f'{sorted(model, key=repr)}')
  for p in model:
    want = before[p][1] + (1100 if p in part_paths else 100)
    require(leafval(after[p]) == want, lambda: f'after a partial '
            f'replace_by_pure_dict the leaf at {p} is {leafval(after[p])}, '
            f'expected {want}')
  bad = dict(pure)
  bad['__nope__' if isinstance(next(iter(pure)), str) else 99] = 1
  expect_raises(ValueError, lambda: statelib.replace_by_pure_dict(s, bad),
                'replace_by_pure_dict with unknown key')
  ctx.note(nontrivial=len(model) >= 3 and any(len(p) >= 2 for p in model),
           labels=[f'leaves{min(len(model), 5)}'])


# ----------------------------------------------------------------------------
SPLIT_FILTERS = ['Param', 'BatchStat', 'Variable', 'VariableState', 'path:a',
                 'path:b', 'path:layer', 'tag:t', 'rest', 'true', 'nothing']
CATCH_ALL = ('rest', 'true')


def _mk_filter(name):
  if name == 'Param':
    return nnx.Param
  if name == 'BatchStat':
    return nnx.BatchStat
  if name == 'Variable':
    return nnx.Variable
  if name == 'VariableState':
    return nnx.VariableState
  if name.startswith('path:'):
    return nnx.PathContains(name[5:])
  if name.startswith('tag:'):
    return nnx.WithTag(name[4:])
  if name == 'true':
    return True
  return ... if name == 'rest' else False


def _ref_match(name, path, leaf):
  """Independent statement of the documented filter meanings."""
  typ = leaf.type if isinstance(leaf, nnx.VariableState) else type(leaf)
  if name in ('Param', 'BatchStat', 'Variable'):
    T = {'Param': nnx.Param, 'BatchStat': nnx.BatchStat,
         'Variable': nnx.Variable}[name]
    return isinstance(typ, type) and issubclass(typ, T)
  if name == 'VariableState':
    return isinstance(leaf, nnx.VariableState)
  if name.startswith('path:'):
    return name[5:] in path
  if name.startswith('tag:'):
    return getattr(leaf, 'tag', None) == name[4:]
  return name in CATCH_ALL


def _split_case():
  return st.tuples(
      state_tree(),
      st.lists(st.sampled_from(SPLIT_FILTERS), min_size=1, max_size=4),
      st.sampled_from(['split_state', 'State.split', 'filter_state',
                       'State.filter']))


@clause('split_merge_inverse', strategy=_split_case, quick=2000,
        thorough=100000,
        rule='random nested States x 1-4 filters (Variable types, '
        'VariableState, PathContains, WithTag, nothing, and the catch-alls '
        '... / True, of which any number may trail the list) '
        'x {split_state, State.split, filter_state, State.filter}: every part '
        'holds exactly the leaves whose first matching filter it is (same '
        'leaf objects); split raises ValueError iff some leaf matches no '
        'filter, otherwise merge_state(*parts) rebuilds the State; a single '
        'filter gives a State, several a tuple; non-trivial = >=2 filters, '
        '>=3 leaves and >=2 non-empty parts (or a non-exhaustive split)')
def split_merge_inverse(case, ctx):
  tree, names, api = case
  # catch-alls ("..." / True) are only legal as the last filters, but any
  # number of them may trail the list (_split_state's own validation)
  names = ([n for n in names if n not in CATCH_ALL]
           + [n for n in names if n in CATCH_ALL])
  d = sbuild(tree)
  model = flat_model(d)
  s = statelib.State(d)
  filters = [_mk_filter(n) for n in names]
  first = {}
  for p, leaf in model.items():
    first[p] = next((i for i, n in enumerate(names)
                     if _ref_match(n, p, leaf)), None)
  exhaustive = all(i is not None for i in first.values())
  splitting = api in ('split_state', 'State.split')
  call = {'split_state': lambda: statelib.split_state(s, *filters),
          'State.split': lambda: s.split(*filters),
          'filter_state': lambda: statelib.filter_state(s, *filters),
          'State.filter': lambda: s.filter(*filters)}[api]
  if splitting and not exhaustive:
    expect_raises(ValueError, call, f'{api} with filters {names} although '
                  f'{sum(i is None for i in first.values())} leaves match '
                  'no filter')
    ctx.note(labels=[api, 'non-exhaustive', f'filters{len(names)}'],
             nontrivial=len(model) >= 2)
    return
  with sut(api):
    parts = call()
  if len(names) == 1:
    require(isinstance(parts, statelib.State), lambda: f'{api} with one '
            f'filter returned {type(parts).__name__}')
    parts = (parts,)
  require(isinstance(parts, tuple) and len(parts) == len(names),
          lambda: f'{api} returned {len(parts)} parts for {len(names)} filters')
  for i, part in enumerate(parts):
    got = dict(statelib.to_flat_state(part))
    exp = {p: model[p] for p, j in first.items() if j == i}
    require(set(got) == set(exp) and all(got[p] is exp[p] for p in exp),
            lambda: f'{api}: part {i} (filter {names[i]}) holds '
            f'{sorted(got)}, first-match partition gives {sorted(exp)}')
  if splitting:
    with sut('merge_state'):
      back = statelib.merge_state(*parts)
    require(same_tree(back, s), lambda: f'merge_state(*{api}(s)) != s')
  ctx.note(labels=[api, 'exhaustive' if exhaustive else 'partial',
                   f'filters{len(names)}'],
           nontrivial=len(names) >= 2 and len(model) >= 3 and sum(
               1 for i in range(len(names)) if i in first.values()) >= 2)


def _pair_case():
  paths = st.lists(
      st.lists(st.sampled_from(['a', 'b', 'c', 'k']), min_size=1, max_size=3),
      min_size=1, max_size=7, unique_by=tuple)
  # (each operand is made prefix-free when it is built; across operands a
  # leaf of one may sit where the other has a sub-state)
  return paths.flatmap(lambda ps: st.tuples(
      st.just(ps),
      st.lists(st.sampled_from(['a', 'b', 'ab', 'none']), min_size=len(ps),
               max_size=len(ps)),
      st.sampled_from(['diff', 'sub', 'or', 'merge']),
      # empty sub-states (what `del state[...][leaf]` leaves behind) hold no
      # path: they must not change the result of any set operation
      st.lists(st.tuples(st.sampled_from(['a', 'b']), st.lists(
          st.sampled_from(['a', 'b', 'c', 'k', 'e']), min_size=1,
          max_size=3)), max_size=2)))


@clause('state_set_laws', strategy=_pair_case, quick=3000, thorough=150000,
        rule='pairs of States drawn as sub-sets of one path universe (each '
        'operand prefix-free; for the difference one operand may hold a leaf '
        'where the other holds a sub-state) with different values on shared paths, optionally holding '
        'empty sub-states at unrelated prefixes: merge_state / | '
        '(later wins), diff / - (paths of a absent from b) vs a flat-dict '
        'model; non-trivial = both states non-empty and overlapping but '
        'different')
def state_set_laws(case, ctx):
  paths, member, op, *rest = case
  hollow = rest[0] if rest else []
  fa, fb = {}, {}
  def related(p, q):
    return p != q and (q[:len(p)] == p or p[:len(q)] == q)
  cross = False
  for i, (p, m) in enumerate(zip(paths, member)):
    p = tuple(p)
    if 'a' in m and not any(related(p, q) for q in fa):
      # union of a leaf and a sub-state at one path is a structural conflict,
      # not a set operation: only the difference sees such pairs
      if op in ('diff', 'sub') or not any(related(p, q) for q in fb):
        fa[p] = nnx.Param(jnp.asarray(i))
    if 'b' in m and not any(related(p, q) for q in fb):
      if op in ('diff', 'sub') or not any(related(p, q) for q in fa):
        fb[p] = nnx.Param(jnp.asarray(100 + i))
  cross = any(related(p, q) for p in fa for q in fb)
  def nested(flat, empties, other):
    out = {}
    for p, v in flat.items():
      d = out
      for k in p[:-1]:
        d = d.setdefault(k, {})
      d[p[-1]] = v
    used = []
    for q in empties:
      q = tuple(q)
      # only where the state has no leaf at, above or below q
      if any(p[:len(q)] == q or q[:len(p)] == p for p in flat):
        continue
      # ... and the other operand has no leaf at or above q (a leaf against
      # a mapping at one path is a structural conflict, not a set operation)
      if any(q[:len(p)] == p for p in other):
        continue
      d = out
      for k in q:
        d = d.setdefault(k, {})
      used.append(q)
    return out, used
  na, ea = nested(fa, [q for w, q in hollow if w == 'a'], fb)
  nb, eb = nested(fb, [q for w, q in hollow if w == 'b'], fa)
  with sut('State(nested mapping)'):
    a = statelib.State(na) if ea else statelib.from_flat_state(fa)
    b = statelib.State(nb) if eb else statelib.from_flat_state(fb)
  if op in ('diff', 'sub'):
    with sut('State difference'):
      if op == 'diff':
        r = statelib.diff(a, b)
      else:
        import warnings
        with warnings.catch_warnings():
          warnings.simplefilter('ignore')
          r = a - b
      got = dict(statelib.to_flat_state(r))
    exp = {p: v for p, v in fa.items() if p not in fb}
  else:
    with sut('State union'):
      if op == 'or':
        r = a | b
      else:
        r = statelib.merge_state(a, b)
      got = dict(statelib.to_flat_state(r))
    exp = {**fa, **fb}
  require(set(got) == set(exp), lambda: f'{op}: paths {sorted(got)} != '
          f'{sorted(exp)} (a={sorted(fa)}, b={sorted(fb)})')
  for p in exp:
    require(got[p] is exp[p], f'{op}: wrong leaf at {p}')
  # operands untouched
  require(dict(statelib.to_flat_state(a)).keys() == fa.keys()
          and dict(statelib.to_flat_state(b)).keys() == fb.keys(),
          f'{op} modified an operand')
  inter = set(fa) & set(fb)
  ctx.note(labels=[op] + (['empty-substate'] if ea or eb else []) + (
      ['leaf-vs-substate'] if cross else []),
           nontrivial=bool(fa) and bool(fb) and bool(inter)
           and set(fa) != set(fb))
