"""C11 — checkpoint directory: crash safety, retention, ordering."""
from __future__ import annotations

import math
import os
import shutil
import tempfile
import warnings

import numpy as np
from hypothesis import strategies as st

from harness.core import (begin, clause, Violation, sut, require,
                          HarnessError)
from harness.forkexec import run_child

from flax.training import checkpoints
from flax import io as fio
from flax import config as fconfig
from flax import errors as ferrors

fio.set_mode(fio.BackendMode.DEFAULT)

begin('C11')

ROOT = os.path.dirname(os.path.dirname(os.path.abspath(__file__)))
SCRATCH = os.path.join(ROOT, 'out', 'c11')

ASSUMPTIONS = [
    'crash = the saving process is killed between two Python-level '
    'file-system operations (audit events open-for-write/mkdir/rename/remove/'
    'rmdir); completed operations persist, later ones never happen; no '
    'power-loss reordering',
    'flax.io runs in BackendMode.DEFAULT so the legacy back-end uses Python '
    'os/shutil calls that the audit hook can see',
    'writes done inside C++ (tensorstore) are modelled by truncating/deleting '
    'files of the in-flight temporary after the crash',
    'every operation runs in a forked child of a process that has imported '
    'flax/orbax; the parent never touches the directory through flax',
    'prefixes contain no digits/sign/dot and steps within one directory are '
    'all ints or all floats (otherwise file names are ambiguous)',
]

TMP_MARK = '.orbax-checkpoint-tmp'
FLOATS = [-2.5, -1.0, 1e-05, 0.0025, 0.5, 1.0, 2.5, 7.0, 64.0, 100000.0, 1e+16]
PREFIXES = ['checkpoint_', 'ckpt', 'model_v', 'x']


# ----------------------------------------------------------------------------
# operations executed in forked children
# ----------------------------------------------------------------------------
def tree_for(marker):
  # 'm': a matrix leaf whose memory layout depends on the marker (C order,
  # Fortran order -- e.g. a transposed weight --, or a strided view); the
  # values a restore must return are the same for all three
  m = (np.arange(6, dtype=np.int16) + marker).reshape(2, 3)
  if marker % 3 == 1:
    m = np.asfortranarray(m)
  elif marker % 3 == 2:
    base = np.zeros((2, 6), np.int16)
    base[:, ::2] = m
    m = base[:, ::2]
  return {'a': np.arange(3, dtype=np.int32) + marker,
          'n': {'s': np.float32(marker)}, 'm': m}


def simplify(t):
  if t is None:
    return None
  return [[int(x) for x in np.asarray(t['a']).tolist()],
          float(np.asarray(t['n']['s'])),
          [[int(x) for x in row] for row in np.asarray(t['m']).tolist()]]


def expect_tree(marker):
  return [[marker, marker + 1, marker + 2], float(marker),
          [[marker, marker + 1, marker + 2],
           [marker + 3, marker + 4, marker + 5]]]


def op_save(d, backend, prefix, step, marker, keep, every, overwrite,
            use_async=False):
  def f():
    import sys as _sys
    warnings.simplefilter('ignore')
    fconfig.update('flax_use_orbax_checkpointing', backend == 'orbax')
    # torn write: every write through flax.io.GFile is split in two halves
    # with a crash point (custom audit event) in between
    real_gfile = fio.GFile
    class TornFile:
      def __init__(self, fobj, name):
        self._f, self._name = fobj, name
      def write(self, data):
        h = len(data) // 2
        self._f.write(data[:h])
        self._f.flush()
        _sys.audit('verif.torn_write', self._name)
        return h + self._f.write(data[h:])
      def __enter__(self):
        self._f.__enter__()
        return self
      def __exit__(self, *a):
        return self._f.__exit__(*a)
      def __getattr__(self, k):
        return getattr(self._f, k)
    def gfile(name, mode):
      fobj = real_gfile(name, mode)
      return TornFile(fobj, name) if 'w' in mode else fobj
    fio.GFile = gfile
    checkpoints.save_checkpoint(d, tree_for(marker), step, prefix=prefix,
                                keep=keep, overwrite=overwrite,
                                keep_every_n_steps=every)
    return True
  return f


def is_tmp_name(name, prefix):
  return (TMP_MARK in name or name == prefix + 'tmp' or name.endswith('_gda'))


def op_observe(d, prefix, float_steps, stepobjs):
  """stepobjs: name -> original step object (to restore by step)."""
  def f():
    warnings.simplefilter('ignore')
    out = {}
    names = sorted(os.listdir(d)) if os.path.isdir(d) else []
    out['names'] = names
    try:
      out['avail'] = ('ok', [float(s) for s in checkpoints.available_steps(
          d, prefix, step_type=float)])
    except Exception as e:  # noqa
      out['avail'] = ('exc', repr(e)[:300])
    try:
      lp = checkpoints.latest_checkpoint(d, prefix)
      out['latest'] = ('ok', os.path.basename(lp) if lp else None)
    except Exception as e:  # noqa
      out['latest'] = ('exc', repr(e)[:300])
    try:
      out['restore'] = ('ok', simplify(checkpoints.restore_checkpoint(
          d, None, prefix=prefix)))
    except Exception as e:  # noqa
      out['restore'] = ('exc', repr(e)[:300])
    per = {}
    for name in names:
      if not name.startswith(prefix) or is_tmp_name(name, prefix):
        continue
      step = stepobjs.get(name, name[len(prefix):])
      try:
        per[name] = ('ok', simplify(checkpoints.restore_checkpoint(
            d, None, step=step, prefix=prefix)))
      except Exception as e:  # noqa
        per[name] = ('exc', repr(e)[:300])
    out['per'] = per
    return out
  return f


# ----------------------------------------------------------------------------
# reference model
# ----------------------------------------------------------------------------
def policy(existing, new, keep, every, overwrite):
  """Steps remaining after a completed save (documented retention policy)."""
  s = sorted(set(existing) | {new})
  if overwrite:
    s = [x for x in s if x <= new]
  if len(s) > keep:
    old, tail = s[:-keep], s[-keep:]
    last = -math.inf
    kept = []
    for x in old:
      if every and (x - last) >= every:
        kept.append(x)
        last = x
    s = kept + tail
  return set(s)


class Model:
  def __init__(self, backend, prefix, float_steps):
    self.backend, self.prefix, self.float_steps = backend, prefix, float_steps
    self.committed = {}   # step value -> marker
    self.damaged = set()  # steps whose removal was interrupted
    self.stepobj = {}     # step value -> step object used in the file name

  def register(self, step, stepobj):
    self.stepobj.setdefault(step, stepobj)

  def name(self, step):
    return f'{self.prefix}{self.stepobj[step]}'

  def name_map(self):
    return {self.name(s): o for s, o in self.stepobj.items()}

  def all_steps(self):
    return set(self.committed) | self.damaged


def ckpt_names(names, prefix):
  return [n for n in names if n.startswith(prefix)
          and not is_tmp_name(n, prefix)]


def check_observation(m, obs, what):
  """Invariants I1/I2/I5 against the model's *current* state."""
  names = ckpt_names(obs['names'], m.prefix)
  exp_names = sorted(m.name(s) for s in m.all_steps())
  require(sorted(names) == exp_names, lambda: f'{what}: directory holds '
          f'{sorted(names)}, policy/model expects {exp_names} (all entries: '
          f'{obs["names"]})')
  require(obs['avail'][0] == 'ok', lambda: f'{what}: available_steps raised '
          f'{obs["avail"][1]}')
  exp_steps = sorted(float(s) for s in m.all_steps())
  require(obs['avail'][1] == exp_steps, lambda: f'{what}: available_steps = '
          f'{obs["avail"][1]}, expected numerically ordered {exp_steps}')
  require(obs['latest'][0] == 'ok', f'{what}: latest_checkpoint raised')
  if m.all_steps():
    top = max(m.all_steps())
    require(obs['latest'][1] == m.name(top), lambda: f'{what}: latest_'
            f'checkpoint = {obs["latest"][1]}, numerically largest is '
            f'{m.name(top)}')
    require(top in m.committed, lambda: f'{what}: the latest checkpoint '
            f'{m.name(top)} is a partially deleted directory')
    require(obs['restore'] == ('ok', expect_tree(m.committed[top])),
            lambda: f'{what}: restore_checkpoint returned {obs["restore"]}, '
            f'expected the tree saved at step {top}: '
            f'{expect_tree(m.committed[top])}')
  else:
    require(obs['latest'][1] is None, f'{what}: latest_checkpoint on an empty '
            f'directory = {obs["latest"][1]}')
    require(obs['restore'] == ('ok', None), lambda: f'{what}: restore on a '
            f'directory without checkpoints returned {obs["restore"]}')
  for s, marker in m.committed.items():
    got = obs['per'].get(m.name(s))
    require(got == ('ok', expect_tree(marker)), lambda: f'{what}: restoring '
            f'retained step {s} returned {got}, expected {expect_tree(marker)}')


class Runner:
  def __init__(self, case):
    os.makedirs(SCRATCH, exist_ok=True)
    self.base = tempfile.mkdtemp(prefix='h_', dir=SCRATCH)
    self.d = os.path.join(self.base, 'ckpts')
    os.makedirs(self.d)   # the Orbax back-end needs an existing directory
    # legal but non-normalised spellings of the same directory
    sp = case.get('dir_spelling', 'plain')
    if sp == 'dot':
      self.d = os.path.join(self.base, '.', 'ckpts')
    elif sp == 'double':
      self.d = self.base + '//ckpts'
    elif sp == 'trailing':
      self.d = self.d + '/'
    elif sp == 'dotdot':
      os.makedirs(os.path.join(self.base, 'x'))
      self.d = os.path.join(self.base, 'x', '..', 'ckpts')
    self.m = Model(case['backend'], case['prefix'], case['float_steps'])
    self.marker = 0
    self.forks = 0

  def close(self):
    shutil.rmtree(self.base, ignore_errors=True)

  def child(self, fn, **kw):
    self.forks += 1
    r = run_child(fn, **kw)
    if r['status'] in ('timeout', 'died'):
      raise HarnessError(f'child {r["status"]}: {r}')
    return r

  def observe(self):
    m = self.m
    r = self.child(op_observe(self.d, m.prefix, m.float_steps, m.name_map()))
    if r['status'] != 'ok':
      raise HarnessError(f'observe failed: {r}')
    return r['value']

  # -- expected outcome of a save on the current model state ---------------
  def expected_error(self, step, overwrite):
    m = self.m
    if overwrite:
      return False
    if step in m.all_steps():
      return True
    if m.backend == 'legacy' and m.all_steps() and step < max(m.all_steps()):
      return True
    return False

  def apply_completed(self, step, stepobj, marker, keep, every, overwrite):
    m = self.m
    post = policy(m.all_steps(), step, keep, every, overwrite)
    m.committed[step] = marker
    m.damaged.discard(step)
    for s in list(m.committed):
      if s not in post:
        del m.committed[s]
    m.damaged &= post

  def save(self, step, stepobj, keep, every, overwrite, crash_at=None,
           d=None):
    """Runs one (possibly crashing) save; returns the child's result."""
    self.marker += 1
    m = self.m
    m.register(step, stepobj)
    return self.child(
        op_save(d or self.d, m.backend, m.prefix, stepobj, self.marker, keep,
                every, overwrite),
        watch_dir=os.path.dirname(os.path.normpath(d or self.d)),
        crash_at=crash_at), self.marker


def known_class(m, step, overwrite, phase):
  """Crash classes recorded as known findings (excluded by construction)."""
  if m.backend != 'orbax' or not overwrite:
    return None
  if step in m.all_steps():
    return 'C11:orbax-overwrite-existing-step-not-atomic'
  if phase == 'retention' and any(s > step for s in m.all_steps()):
    return 'C11:orbax-overwrite-newer-removal-not-atomic'
  return None


def commit_index(events, name):
  for i, e in enumerate(events):
    if e.startswith('os.rename') and (e.endswith('-> ' + name)
                                      or e.endswith('/' + name)):
      return i
  return None


def tear_tmp(d, prefix, torn):
  """Torn write: truncate / delete files of in-flight temporaries."""
  if not torn or not os.path.isdir(d):
    return 0
  n = 0
  for name in sorted(os.listdir(d)):
    if not (TMP_MARK in name or name == prefix + 'tmp'):
      continue
    p = os.path.join(d, name)
    files = []
    if os.path.isdir(p):
      for root, _, fs in os.walk(p):
        files += [os.path.join(root, f) for f in sorted(fs)]
    else:
      files = [p]
    for i, f in enumerate(files):
      mode = torn[i % len(torn)]
      try:
        if mode == 0:
          continue
        if mode == 1:
          os.truncate(f, os.path.getsize(f) // 2)
        elif mode == 2:
          os.truncate(f, 0)
        elif mode == 3 and os.path.isdir(p):
          os.remove(f)
        n += 1
      except OSError:
        pass
  return n


def handle_crash(R, res, step, stepobj, marker, keep, every, overwrite, torn,
                 ctx, d=None):
  kc = known_class(R.m, step, overwrite, 'retention' if commit_index(
      res['events'][:-1], R.m.name(step)) is not None else 'write')
  if kc and getattr(R, 'probe_known', False):
    try:
      return _handle_crash(R, res, step, stepobj, marker, keep, every,
                           overwrite, torn, ctx, d, allow_known=True)
    except Violation as v:
      raise Violation(str(v), key=kc) from None
  return _handle_crash(R, res, step, stepobj, marker, keep, every, overwrite,
                       torn, ctx, d)


def _handle_crash(R, res, step, stepobj, marker, keep, every, overwrite, torn,
                  ctx, d=None, allow_known=False):
  """Checks the post-crash directory, then updates the model from it.

  Returns False if the crash belongs to a known-finding class (history ends).
  """
  m = R.m
  d = d or R.d
  name = m.name(step)
  ci = commit_index(res['events'][:-1], name)
  phase = 'retention' if ci is not None else 'write'
  kc = known_class(m, step, overwrite, phase)
  if kc and not allow_known:
    ctx.exclude(kc)
    return False
  tear_tmp(d, m.prefix, torn)
  pre = m.all_steps()
  post = policy(pre, step, keep, every, overwrite)
  obs = R.child(op_observe(d, m.prefix, m.float_steps,
                           m.name_map()))['value']
  names = set(ckpt_names(obs['names'], m.prefix))
  name_of = {m.name(s): s for s in pre}
  # what the crashed save was allowed to do
  must_stay = {m.name(s) for s in pre & post}
  may_exist = {m.name(s) for s in pre} | {name}
  require(must_stay <= names <= may_exist, lambda: f'after a crash at event '
          f'{len(res["events"])} ({res["events"][-1]}) of save(step={stepobj}, '
          f'keep={keep}, every={every}, overwrite={overwrite}) the directory '
          f'holds {sorted(names)}; must keep {sorted(must_stay)}, may hold '
          f'{sorted(may_exist)}')
  new_committed = {}
  new_damaged = set()
  for n in names:
    s = step if n == name else name_of[n]
    got = obs['per'].get(n)
    candidates = []
    if s in m.committed:
      candidates.append(m.committed[s])
    if n == name:
      candidates.append(marker)
    ok = [c for c in candidates if got == ('ok', expect_tree(c))]
    if ok:
      new_committed[s] = ok[0]
    else:
      # partial entry: only a checkpoint this save was in the middle of
      # removing (or one already damaged) may be incomplete
      slated = s not in post or s in m.damaged
      require(slated, lambda: f'after a crash at event {len(res["events"])} '
              f'({res["events"][-1]}) checkpoint {n} is listed but restoring '
              f'it gives {got}')
      new_damaged.add(s)
  m.committed, m.damaged = new_committed, new_damaged
  # I1/I2 on the crashed directory: listing has no tmp, restore is complete
  what = (f'after crash at event {len(res["events"])} ({res["events"][-1]}) '
          f'of save(step={stepobj}, overwrite={overwrite})')
  if m.all_steps() and max(m.all_steps()) in m.damaged:
    raise Violation(f'{what}: the latest checkpoint is a partially deleted '
                    f'directory; restore_checkpoint -> {obs["restore"]}')
  check_observation(m, obs, what)
  return True


def step_for(case, idx):
  if case['float_steps']:
    i = max(0, min(len(FLOATS) - 1, idx))
    v = FLOATS[i]
    return float(v), v
  v = case['start'] + idx
  return float(v), int(v)


def run_history(case, ctx, enumerate_crashes=False, probe_known=False):
  R = Runner(case)
  R.probe_known = probe_known
  m = R.m
  idx = 0
  labels = set()
  crashes = 0
  saves_after_crash = 0
  try:
    first = True
    nops = len(case['ops'])
    for opi, op in enumerate(case['ops']):
      delta, keep, every, overwrite, crash_k, torn = op
      if not first:
        idx += delta
      first = False
      if case['float_steps']:
        idx = max(0, min(len(FLOATS) - 1, idx))
      step, stepobj = step_for(case, idx)
      exp_err = R.expected_error(step, overwrite)
      if enumerate_crashes and not exp_err and (
          ctx.tier == 'thorough' or opi == nops - 1):
        n = enumerate_all(R, step, stepobj, keep, every, overwrite, torn, ctx)
        crashes += n
        labels.add('enumerated')
        crash_k = None
      if exp_err:
        crash_k = None
      res, marker = R.save(step, stepobj, keep, every, overwrite, crash_k)
      if res['status'] == 'crashed':
        crashes += 1
        labels.add('crash-' + ('retention' if commit_index(
            res['events'][:-1], m.name(step)) is not None else 'write'))
        if not handle_crash(R, res, step, stepobj, marker, keep, every,
                            overwrite, torn, ctx):
          labels.add('known-class-excluded')
          break
        continue
      if crashes:
        saves_after_crash += 1
      if exp_err:
        require(res['status'] == 'exc' and res['exc_type'] in (
            'InvalidCheckpointError', 'ValueError'), lambda: f'save(step='
            f'{stepobj}, overwrite=False) on a directory holding steps '
            f'{sorted(m.all_steps())} ({m.backend}) should raise, got {res}')
        labels.add('rejected-save')
      else:
        require(res['status'] == 'ok', lambda: f'save(step={stepobj}, keep='
                f'{keep}, every={every}, overwrite={overwrite}) on steps '
                f'{sorted(m.all_steps())} failed: {res.get("exc_type")} '
                f'{res.get("exc")}')
        R.apply_completed(step, stepobj, marker, keep, every, overwrite)
        if every:
          labels.add('keep_every')
        if overwrite:
          labels.add('overwrite')
      obs = R.observe()
      check_observation(m, obs, f'after save(step={stepobj}, keep={keep}, '
                        f'every={every}, overwrite={overwrite}) -> '
                        f'{res["status"]}')
    ctx.note(labels=sorted(labels) + [m.backend,
                                      'float' if m.float_steps else 'int'],
             nontrivial=(crashes >= 1 and saves_after_crash >= 1)
             or 'keep_every' in labels or 'overwrite' in labels)
    ctx.extra['forks'] = ctx.extra.get('forks', 0) + R.forks
  finally:
    R.close()


def enumerate_all(R, step, stepobj, keep, every, overwrite, torn, ctx):
  """Fault enumeration: every crash point k of this save, each followed by
  observe + retry + later save, on a scratch copy of the directory."""
  m = R.m
  k = 0
  count = 0
  while True:
    k += 1
    scratch = tempfile.mkdtemp(prefix='e_', dir=R.base)
    d2 = os.path.join(scratch, 'ckpts')
    if os.path.isdir(R.d):
      shutil.copytree(R.d, d2)
    saved = (dict(m.committed), set(m.damaged), dict(m.stepobj), R.d, R.marker)
    try:
      R.d = d2
      res, marker = R.save(step, stepobj, keep, every, overwrite, crash_at=k)
      if res['status'] != 'crashed':
        return count
      count += 1
      ctx.evaluations += 1
      ctx.labels['crash-point'] += 1
      ctx.note(nontrivial=True, labels=['crash:' + res['events'][-1].split(
          ' ')[0]], case=[ctx.current_case, 'save', R.marker, 'crash_at', k])
      if not handle_crash(R, res, step, stepobj, marker, keep, every,
                          overwrite, torn, ctx):
        continue
      # a crashed save (its temporary may still be there) does not open the
      # door to stale steps: the legacy back-end still rejects a step older
      # than the latest, and changes nothing
      if m.backend == 'legacy' and m.all_steps():
        stale = min(m.all_steps()) - 1.0
        if stale != step and R.expected_error(stale, False):
          sobj = stale if m.float_steps else int(stale)
          res_s, _ = R.save(stale, sobj, keep, every, False)
          require(res_s['status'] == 'exc', lambda: f'after a crash at event '
                  f'{k} of save(step={stepobj}) the legacy back-end accepted '
                  f'step {sobj}, older than the latest '
                  f'{max(m.all_steps())}: {res_s.get("status")}')
          check_observation(m, R.observe(), f'after the rejected stale save '
                            f'following a crash at event {k}')
      # I4: retry of the interrupted step
      committed_now = step in m.committed and m.committed[step] == marker
      exp_err = R.expected_error(step, overwrite)
      res2, marker2 = R.save(step, stepobj, keep, every, overwrite)
      if exp_err:
        require(res2['status'] == 'exc', lambda: f'retry after crash at event '
                f'{k}: expected rejection (already committed), got {res2}')
      else:
        require(res2['status'] == 'ok', lambda: f'retrying step {stepobj} '
                f'after a crash at event {k} ({res["events"][-1]}) failed: '
                f'{res2.get("exc_type")} {res2.get("exc")}')
        R.apply_completed(step, stepobj, marker2, keep, every, overwrite)
      check_observation(m, R.observe(), f'after retry following crash at '
                        f'event {k} ({res["events"][-1]})')
      # a later step saves normally and re-establishes the policy
      top = max(m.all_steps() | {step})
      # (a float step of 1e16 and more does not change when 1 is added)
      later = top + max(1.0, abs(top))
      lobj = later if m.float_steps else int(later)
      res3, marker3 = R.save(later, lobj, keep, every, False)
      require(res3['status'] == 'ok', lambda: f'saving later step {lobj} after '
              f'crash at event {k} failed: {res3.get("exc_type")} '
              f'{res3.get("exc")}')
      R.apply_completed(later, lobj, marker3, keep, every, False)
      check_observation(m, R.observe(), f'after later save following crash at '
                        f'event {k} ({res["events"][-1]})')
    finally:
      m.committed, m.damaged, m.stepobj, R.d, _ = saved
      shutil.rmtree(scratch, ignore_errors=True)


# ----------------------------------------------------------------------------
# strategies
# ----------------------------------------------------------------------------
def op_strategy(max_crash):
  return st.tuples(
      st.sampled_from([1, 1, 1, 2, 2, 3, 5, 0, -1, -2]),     # step delta
      st.integers(1, 3),                                       # keep
      st.one_of(st.none(), st.none(), st.integers(1, 6)),      # every n
      st.sampled_from([False, False, False, True]),            # overwrite
      st.one_of(st.none(), st.integers(1, max_crash)),         # crash point
      st.lists(st.integers(0, 3), max_size=3))                 # torn spec


def history_strategy(max_crash=30, min_ops=3, max_ops=8):
  return st.fixed_dictionaries({
      'backend': st.sampled_from(['orbax', 'legacy', 'orbax']),
      'prefix': st.sampled_from(PREFIXES),
      'float_steps': st.sampled_from([False, False, True]),
      'dir_spelling': st.sampled_from(['plain', 'plain', 'dot', 'double',
                                       'trailing', 'dotdot']),
      'start': st.integers(-3, 3),
      'ops': st.lists(op_strategy(max_crash), min_size=min_ops,
                      max_size=max_ops),
  })


@clause('crash_histories', strategy=history_strategy, quick=128,
        thorough=3000, quick_shards=16, thorough_shards=16, shrink=False,
        rule='histories of 3-8 save_checkpoint calls (int/float/negative/'
        'exponent steps, keep 1-3, keep_every_n, overwrite, 4 prefixes, both '
        'back-ends, plain or non-normalised spelling of the directory: ./, //, '
        'trailing /, x/../), each optionally killed before its k-th file-system '
        'event (k drawn 1-30) and followed by a torn temporary; after every '
        'call the directory, available_steps, latest_checkpoint, restore of '
        'latest and of every retained step are compared with a reference '
        'model of the retention policy; non-trivial = a crash followed by a '
        'further save, or keep_every_n, or overwrite')
def crash_histories(case, ctx):
  run_history(case, ctx, enumerate_crashes=False)


def enum_strategy():
  return history_strategy(max_crash=1, min_ops=2, max_ops=4)


@clause('crash_enumeration', strategy=enum_strategy, quick=32, thorough=320,
        quick_shards=16, thorough_shards=16, shrink=False,
        rule='for every save of a generated history ALL crash points '
        'k=1..N (N = number of mutating file-system events of that save, '
        'found by running until no crash occurs) are executed on a copy of '
        'the directory, each followed by observation, retry of the same step '
        'and a later save with exact-retention check; every crash point is '
        'one evaluation (quick tier: only the last save of each history is '
        'enumerated)')
def crash_enumeration(case, ctx):
  run_history(case, ctx, enumerate_crashes=True)


# ----------------------------------------------------------------------------
# numeric ordering of steps (no forks: empty files stand for checkpoints)
# ----------------------------------------------------------------------------
STEP_POOL = [0, 1, 2, 9, 10, 11, 99, 100, 1000, -1, -2, -10, -11]
FLOAT_POOL = FLOATS + [0.1, 0.01, 0.001, 10.0, 9.5, -0.5, 1e-07, 2.5e-07,
                       1e+20, 123456789.0, 0.25]


@clause('step_ordering',
        strategy=lambda: st.tuples(
            st.booleans(),
            st.lists(st.integers(0, 40), min_size=1, max_size=8, unique=True),
            st.sampled_from(PREFIXES), st.booleans()),
        quick=1500, thorough=60000,
        rule='directories of empty files named prefix+step for sets of int '
        'steps (negatives, 9/10/99/100 boundaries) or float steps (exponent '
        'notation 1e-05, 1e+16, negatives), plus temporaries: natural_sort, '
        'available_steps and latest_checkpoint must be in numeric order and '
        'skip temporaries; non-trivial = >=3 steps whose lexicographic order '
        'differs from numeric order')
def step_ordering(case, ctx):
  use_float, idxs, prefix, add_tmp = case
  pool = FLOAT_POOL if use_float else STEP_POOL
  steps = sorted({pool[i % len(pool)] for i in idxs})
  os.makedirs(SCRATCH, exist_ok=True)
  d = tempfile.mkdtemp(prefix='s_', dir=SCRATCH)
  try:
    names = [f'{prefix}{s}' for s in steps]
    for n in names:
      open(os.path.join(d, n), 'wb').close()
    if add_tmp:
      open(os.path.join(d, prefix + 'tmp'), 'wb').close()
      os.mkdir(os.path.join(d, names[-1] + TMP_MARK))
      os.mkdir(os.path.join(d, f'{prefix}{max(steps) + 5}' + TMP_MARK
                            + '-1700000000'))
    with sut('listing'):
      avail = checkpoints.available_steps(d, prefix, step_type=float)
      latest = checkpoints.latest_checkpoint(d, prefix)
      ns = checkpoints.natural_sort([os.path.join(d, n) for n in names[::-1]])
    require([float(a) for a in avail] == [float(s) for s in steps],
            lambda: f'available_steps {avail} != numeric order {steps}')
    require(os.path.basename(latest) == names[-1], lambda: f'latest_checkpoint'
            f' {os.path.basename(latest)} is not the numerically largest '
            f'{names[-1]} of {names}')
    require([os.path.basename(p) for p in ns] == names,
            lambda: f'natural_sort gives {[os.path.basename(p) for p in ns]}')
    ctx.note(nontrivial=len(steps) >= 3 and sorted(names) != names,
             labels=['float' if use_float else 'int',
                     'tmp' if add_tmp else 'notmp'])
  finally:
    shutil.rmtree(d, ignore_errors=True)


# ----------------------------------------------------------------------------
# AsyncManager differential
# ----------------------------------------------------------------------------
def op_async_history(d, backend, prefix, saves, use_async, stall):
  def f():
    import threading
    import sys as _sys
    warnings.simplefilter('ignore')
    fconfig.update('flax_use_orbax_checkpointing', backend == 'orbax')
    am = checkpoints.AsyncManager() if use_async else None
    outcomes = []
    gate = threading.Event()   # set while the main thread waits for the worker
    main = threading.get_ident()
    state = {'n': 0}
    if use_async and stall and backend == 'legacy':
      # (the Orbax back-end ignores the manager and saves on its own threads)
      orig_wait = am.wait_previous_save
      def wait_previous_save():
        gate.set()          # main has entered the next save / final wait
        try:
          return orig_wait()
        finally:
          gate.clear()
      am.wait_previous_save = wait_previous_save
      def hook(event, args):
        if threading.get_ident() == main:
          return
        if event in ('open', 'os.rename', 'os.remove'):
          state['n'] += 1
          if state['n'] % stall == 0:
            # stall the worker until the main thread has moved on to (and
            # blocked in) the next save_checkpoint call
            gate.wait(timeout=10)
      _sys.addaudithook(hook)
    for (stepobj, marker, keep, every, overwrite) in saves:
      try:
        checkpoints.save_checkpoint(d, tree_for(marker), stepobj,
                                    prefix=prefix, keep=keep,
                                    overwrite=overwrite,
                                    keep_every_n_steps=every,
                                    async_manager=am)
        if am is not None and am.save_future is not None:
          pass
        outcomes.append('ok')
      except Exception as e:  # noqa
        outcomes.append(type(e).__name__)
    if am is not None:
      am.wait_previous_save()
      gate.set()
      if am.save_future is not None:
        try:
          am.save_future.result()
        except Exception as e:  # noqa
          outcomes.append('future:' + type(e).__name__)
    return outcomes
  return f


def op_async_snapshot(d, backend, prefix, n_saves):
  """A host-side training loop that updates one tree in place and saves it
  through an AsyncManager whose single worker is busy when each save is
  issued: what is saved is the tree as it was when save_checkpoint was
  called."""
  def f():
    import threading
    warnings.simplefilter('ignore')
    fconfig.update('flax_use_orbax_checkpointing', backend == 'orbax')
    am = checkpoints.AsyncManager()
    tree = tree_for(0)
    tree['k'] = 0
    for i in range(1, n_saves + 1):
      tree['a'] += 1                 # in-place update of the host arrays
      tree['n']['s'] = np.float32(i)
      tree['k'] = i
      am.wait_previous_save()
      gate = threading.Event()
      am.executor.submit(gate.wait)  # the worker is busy right now
      checkpoints.save_checkpoint(d, tree, i, prefix=prefix, keep=n_saves,
                                  async_manager=am)
      # the caller goes on training while the save is still queued
      tree['a'] += 1000
      tree['n']['s'] = np.float32(-1)
      tree['k'] = -1
      gate.set()
      am.wait_previous_save()
      tree['a'] -= 1000
    out = {}
    for i in range(1, n_saves + 1):
      t = checkpoints.restore_checkpoint(d, None, step=i, prefix=prefix)
      out[i] = [[int(x) for x in np.asarray(t['a']).tolist()],
                float(np.asarray(t['n']['s'])), int(np.asarray(t['k']))]
    return out
  return f


@clause('async_manager',
        strategy=lambda: st.tuples(history_strategy(max_crash=1, min_ops=2,
                                                    max_ops=6),
                                   st.integers(0, 4)),
        quick=48, thorough=1500, quick_shards=16, thorough_shards=16,
        shrink=False,
        rule='the same history of saves executed synchronously and through '
        'one AsyncManager (worker thread stalled at every j-th file event '
        'until the main thread enters the next save): identical outcomes per '
        'call, identical retained steps and restored trees; also compared '
        'with the reference policy; a tree that the caller keeps updating in '
        'place is saved as it was when each asynchronous save was issued; non-trivial = >=3 saves with keep_every_n '
        'or overwrite or a rejected save')
def async_manager(case, ctx):
  hist, stall = case
  os.makedirs(SCRATCH, exist_ok=True)
  base = tempfile.mkdtemp(prefix='a_', dir=SCRATCH)
  try:
    saves = []
    idx = 0
    first = True
    for k, (delta, keep, every, overwrite, _, _) in enumerate(hist['ops']):
      if not first:
        idx += delta
      first = False
      if hist['float_steps']:
        idx = max(0, min(len(FLOATS) - 1, idx))
      step, stepobj = step_for(hist, idx)
      saves.append((stepobj, k + 1, keep, every, overwrite))
    results = {}
    for mode in ('sync', 'async'):
      d = os.path.join(base, mode, 'ckpts')
      os.makedirs(d)
      r = run_child(op_async_history(d, hist['backend'], hist['prefix'], saves,
                                     mode == 'async', stall))
      if r['status'] != 'ok':
        raise Violation(f'{mode} history failed: {r}')
      stepobjs = {f'{hist["prefix"]}{s[0]}': s[0] for s in saves}
      o = run_child(op_observe(d, hist['prefix'], hist['float_steps'],
                               stepobjs))
      if o['status'] != 'ok':
        raise HarnessError(f'observe failed {o}')
      results[mode] = (r['value'], o['value'])
    (out_s, obs_s), (out_a, obs_a) = results['sync'], results['async']
    norm = lambda outs: ['ok' if x == 'ok' else 'err' for x in outs]
    require(norm(out_s) == norm(out_a[:len(out_s)]) and len(out_a) == len(out_s),
            lambda: f'per-call outcomes differ: sync {out_s} vs async {out_a}')
    for key in ('avail', 'latest', 'restore', 'per'):
      require(obs_s[key] == obs_a[key], lambda: f'AsyncManager leaves a '
              f'different directory ({key}): sync {obs_s[key]} vs async '
              f'{obs_a[key]}')
    require(ckpt_names(obs_s['names'], hist['prefix']) == ckpt_names(
        obs_a['names'], hist['prefix']), 'different checkpoint names')
    if hist['backend'] == 'legacy':
      d3 = os.path.join(base, 'snapshot', 'ckpts')
      os.makedirs(d3)
      n3 = 1 + stall % 3
      r3 = run_child(op_async_snapshot(d3, hist['backend'], hist['prefix'],
                                       n3))
      if r3['status'] != 'ok':
        raise Violation(f'async saves of a tree updated in place failed: '
                        f'{r3}')
      for i in range(1, n3 + 1):
        exp3 = [[i, i + 1, i + 2], float(i), i]
        require(r3['value'][i] == exp3, lambda: f'restoring step {i} returns '
                f'{r3["value"][i]}, the tree passed to save_checkpoint('
                f'async_manager=...) was {exp3}: the tree was not captured '
                'when the save was issued')
    ctx.note(labels=[hist['backend'], f'stall{stall}'],
             nontrivial=len(saves) >= 3 and ('err' in norm(out_s) or any(
                 s[3] or s[4] for s in saves)))
  finally:
    shutil.rmtree(base, ignore_errors=True)


# ----------------------------------------------------------------------------
# probes for the recorded known findings (see known_findings.json)
# ----------------------------------------------------------------------------
KNOWN_PROBES = [
    # Orbax force=True deletes the existing checkpoint before writing the new
    # one: a crash in between loses the only checkpoint of that step.
    {'backend': 'orbax', 'prefix': 'checkpoint_', 'float_steps': False,
     'start': 1, 'ops': [[0, 1, None, False, None, []],
                         [0, 1, None, True, 15, []]]},
    # overwrite=True removes newer Orbax checkpoint directories with a
    # non-atomic rmtree after the commit: a crash there leaves the latest
    # checkpoint partially deleted.
    {'backend': 'orbax', 'prefix': 'checkpoint_', 'float_steps': False,
     'start': 1, 'ops': [[0, 3, None, False, None, []],
                         [2, 3, None, False, None, []],
                         [2, 3, None, False, None, []],
                         [-3, 3, None, True, 35, []]]},
]


@clause('known_probes', enum=lambda ctx: KNOWN_PROBES, quick_shards=2,
        thorough_shards=2,
        rule='re-executes the recorded reproduction of each known finding '
        'without the by-construction exclusion; prints KNOWN-FINDING while it '
        'still fails')
def known_probes(case, ctx):
  run_history(case, ctx, probe_known=True)
