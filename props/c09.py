"""C09 — random keys are deterministic, position-addressed, never reused."""
from __future__ import annotations

import hashlib
import itertools

import numpy as np
from hypothesis import strategies as st

from harness.core import begin, clause, Violation, sut, require, expect_raises
from harness import linen_dsl as L

import jax
import jax.numpy as jnp
import flax
import flax.linen as nn
from flax import errors as ferrors
from flax import nnx

begin('C09')

ASSUMPTIONS = [
    'Linen reference derivation: key = fold_in(stream key, uint32(sha1(enc('
    'path parts..., count))[:4])), enc = UTF-8 of strings / minimal big-'
    'endian bytes of ints, each part preceded by \\0 iff flax_fix_rng_'
    'separator; jax.random.fold_in itself is trusted',
    'distinctness is demanded only between draws whose (stream seed, pre-hash '
    'byte string) differ; 32-bit hash collisions are counted, not reported',
    'within one scope and stream the per-scope call count is part of the '
    'position, so only draws in other scopes / other streams / non-random '
    'variables count as "unrelated"',
]


# ----------------------------------------------------------------------------
# reference derivation
# ----------------------------------------------------------------------------
def encode(parts, fix):
  out = b''
  for x in parts:
    if fix:
      out += b'\x00'
    if isinstance(x, str):
      out += x.encode('utf-8')
    else:
      out += int(x).to_bytes((int(x).bit_length() + 7) // 8, 'big')
  return out


def ref_key(seed, parts, fix):
  base = jax.random.key(seed)
  if not parts:
    return L.key_data(base)
  h = int.from_bytes(hashlib.sha1(encode(parts, fix)).digest()[:4], 'big')
  return L.key_data(jax.random.fold_in(base, jnp.uint32(h)))


def child_names(prog):
  """Names of dense/sub children in op order (documented naming rules)."""
  res, counters, lst_pos = [], {}, 0
  for i, op in enumerate(prog['ops']):
    if op['op'] not in ('dense', 'sub'):
      res.append(None)
      continue
    if prog['style'] == 'setup':
      kind = op.get('attr', 'attr')
      if kind == 'list':
        n = f'lst_{lst_pos}'
        lst_pos += 1
      elif kind == 'dict':
        n = f'dct_k{i}'
      else:
        n = f'm{i}'
    else:
      n = op.get('name')
      if n is None:
        prefix = 'Dense' if op['op'] == 'dense' else L.class_name(op['prog'])
        c = counters.get(prefix, 0)
        counters[prefix] = c + 1
        n = f'{prefix}_{c}'
    res.append(n)
  return res


class MissingStream(Exception):
  pass


def simulate(case, seeds, init, fix):
  """Expected draws in execution order: [(path, kind, name, key_data)]."""
  counters = {}
  created = set()
  out = []

  def draw(path, stream):
    if stream not in seeds:
      if 'params' in seeds:
        stream = 'params'
      else:
        raise MissingStream(stream)
    c = counters.get((path, stream), 0) + 1
    counters[(path, stream)] = c
    return ref_key(seeds[stream], path + (c,), fix), stream, c

  def setup_decls(prog, path):
    # setup-style modules declare their params when setup() runs (first use)
    if prog['style'] != 'setup' or (path, '<setup>') in created:
      return
    created.add((path, '<setup>'))
    for op in prog['ops']:
      if op['op'] == 'param' and init:
        k, _, _ = draw(path, 'params')
        out.append((path, 'param', op['name'], k))

  def walk(prog, path):
    names = child_names(prog)
    setup_decls(prog, path)
    children = []
    for i, op in enumerate(prog['ops']):
      k = op['op']
      if k == 'param':
        if prog['style'] == 'compact' and init and (path, op['name']) not in created:
          created.add((path, op['name']))
          kd, _, _ = draw(path, 'params')
          out.append((path, 'param', op['name'], kd))
      elif k == 'rng':
        kd, _, _ = draw(path, op['stream'])
        out.append((path, 'rng', op['stream'], kd))
      elif k == 'sub':
        children.append((op['prog'], path + (names[i],)))
        for _ in range(op.get('calls', 1)):
          walk(op['prog'], path + (names[i],))
      elif k == 'reuse' and children:
        p, pp = children[op['i'] % len(children)]
        walk(p, pp)
  walk(case['prog'], ())
  return out


def run_real(case, seeds, init, fix, variables=None):
  mod = L.make_root(case)
  x = L.make_input(case)
  rngs = {s: jax.random.key(v) for s, v in seeds.items()}
  old = flax.config.flax_fix_rng_separator
  flax.config.update('flax_fix_rng_separator', fix)
  L.REC.clear()
  try:
    if init:
      res = mod.init_with_output(rngs, x)
    else:
      res = mod.apply(variables, x, rngs=rngs)
  finally:
    flax.config.update('flax_fix_rng_separator', old)
  rec = list(L.REC)
  L.REC.clear()
  return res, rec


STREAMS = ['params', 'dropout', 'noise']


def c09_case():
  return st.tuples(
      L.case_strategy(allow=('counter', 'rng', 'tanh'), max_depth=3,
                      max_ops=5),
      st.lists(st.tuples(st.sampled_from(STREAMS), st.integers(0, 50)),
               min_size=1, max_size=3, unique_by=lambda t: t[0]).filter(
                   lambda l: len({v for _, v in l}) == len(l)),
      st.booleans())


def no_dense(prog):
  return L.strip(prog, ('dense',))


@clause('linen_reference', strategy=c09_case, quick=600, thorough=40000,
        quick_shards=8, thorough_shards=16,
        rule='generated module trees (depth<=4, compact+setup, explicit/auto '
        'names, children called 1-3 times and reused, param initialisers and '
        'make_rng draws on streams params/dropout/noise) x stream->seed maps '
        '(distinct seeds, params optional) x flax_fix_rng_separator; every key '
        'observed at init and at apply equals the independent reference '
        'derivation, in execution order; missing stream falls back to params '
        'or raises; draws with different pre-hash encodings are pairwise '
        'distinct; non-trivial = >=3 draws over >=2 scopes or streams')
def linen_reference(case, ctx):
  case, seed_list, fix = case
  case = L.normalize_case(dict(case, shared=[]))
  case = dict(case, prog=no_dense(case['prog']))
  seeds = dict((s, v) for s, v in seed_list)
  has_param = L.uses(case['prog'], ('param',))
  # --- init needs 'params' whenever a param is created
  try:
    exp = simulate(case, seeds, True, fix)
    exp_err = None
  except MissingStream as e:
    exp, exp_err = None, e
  if has_param and 'params' not in seeds:
    exp, exp_err = None, MissingStream('params')
  if exp_err is not None:
    expect_raises((ferrors.InvalidRngError,),
                  lambda: run_real(case, seeds, True, fix),
                  f'init without stream {exp_err}')
    ctx.note(labels=['missing-stream-error'])
    return
  with sut('init'):
    (y, v), rec = run_real(case, seeds, True, fix)
  require(len(rec) == len(exp), lambda: f'{len(rec)} draws observed at init, '
          f'reference expects {len(exp)}: {[r[:3] for r in rec]} vs '
          f'{[e[:3] for e in exp]}')
  for r, e in zip(rec, exp):
    require(r[:3] == e[:3], lambda: f'draw order: observed {r[:3]}, expected '
            f'{e[:3]}')
    require(r[3] == e[3], lambda: f'key of {e[:3]} (fix={fix}) is {r[3]}, '
            f'reference derivation gives {e[3]}')
  # determinism
  with sut('init again'):
    (_, _), rec2 = run_real(case, seeds, True, fix)
  require(rec2 == rec, 'same program and seeds produced different keys')
  # --- apply with the non-params streams only
  aseeds = {s: v for s, v in seeds.items() if s != 'params'}
  try:
    exp_a = simulate(case, aseeds, False, fix)
    err_a = None
  except MissingStream as e:
    exp_a, err_a = None, e
  variables = {c: v[c] for c in v}
  if err_a is not None:
    if aseeds or L.uses(case['prog'], ('rng',)):
      expect_raises((ferrors.InvalidRngError,),
                    lambda: run_real(case, aseeds, False, fix, variables),
                    f'apply without stream {err_a}')
  else:
    with sut('apply'):
      _, rec_a = run_real(case, aseeds, False, fix, variables)
    require([r[:3] for r in rec_a] == [e[:3] for e in exp_a],
            lambda: f'apply draws {[r[:3] for r in rec_a]} vs expected '
            f'{[e[:3] for e in exp_a]}')
    for r, e in zip(rec_a, exp_a):
      require(r[3] == e[3], lambda: f'apply key of {e[:3]} is {r[3]}, '
              f'reference gives {e[3]}')
  # --- distinctness within the run
  keys = {}
  for path, kind, name, kd in rec:
    keys.setdefault(kd, []).append((path, kind, name))
  dup = {k: v for k, v in keys.items() if len(v) > 1}
  require(not dup, lambda: f'the same key was handed out twice: '
          f'{list(dup.values())[:2]}')
  scopes = {r[0] for r in rec}
  streams = {r[2] for r in rec if r[1] == 'rng'}
  ctx.note(labels=[f'fix{int(fix)}', f'draws{min(len(rec), 6)}',
                   'fallback' if any(r[1] == 'rng' and r[2] not in seeds
                                     for r in rec) else 'nofallback'],
           nontrivial=len(rec) >= 3 and (len(scopes) >= 2 or len(streams) >= 2))


# ----------------------------------------------------------------------------
def insertions_case():
  return st.tuples(
      L.case_strategy(allow=('counter', 'rng', 'tanh'), max_depth=2,
                      max_ops=4, styles=('compact',)),
      L.prog_strategy(allow=('counter', 'rng', 'tanh'), max_depth=1,
                      max_ops=3, styles=('compact',)),
      st.integers(0, 5), st.sampled_from(['sibling', 'stream', 'variable',
                                          'reorder']),
      st.booleans())


@clause('linen_insertion_independence', strategy=insertions_case, quick=500,
        thorough=30000, quick_shards=8, thorough_shards=16,
        rule='paired programs: an explicitly named unrelated sibling sub-tree '
        '/ a draw on a new stream / a non-random variable is inserted at a '
        'random position, or explicitly named siblings are reordered; every '
        'key of the original program (identified by path, kind, name, per-'
        'scope occurrence) is unchanged; non-trivial = original has >=2 draws')
def linen_insertion_independence(case, ctx):
  case, extra, pos, kind, fix = case
  case = L.normalize_case(dict(case, shared=[]))
  # 'reuse i' addresses children by position, so inserting a sibling would
  # change which child it calls: not an *unrelated* insertion
  prog = L.strip(no_dense(case['prog']), ('reuse',))
  # give every sub an explicit, unique name so siblings can be permuted
  def name_all(p, pre):
    ops = []
    for i, op in enumerate(p['ops']):
      if op['op'] == 'sub':
        op = dict(op, name=f'{pre}c{i}', prog=name_all(op['prog'],
                                                       f'{pre}c{i}_'))
      ops.append(op)
    return dict(p, ops=ops)
  prog = name_all(prog, '')
  seeds = {'params': 3, 'dropout': 11, 'noise': 29}
  ops = list(prog['ops'])
  i = pos % (len(ops) + 1)
  if kind == 'sibling':
    new = {'op': 'sub', 'prog': no_dense(extra), 'name': 'unrelated',
           'calls': 1, 'attr': 'attr'}
    ops2 = ops[:i] + [new] + ops[i:]
  elif kind == 'stream':
    new = {'op': 'rng', 'stream': 'fresh_stream'}
    ops2 = ops[:i] + [new] + ops[i:]
    seeds = dict(seeds, fresh_stream=77)
  elif kind == 'variable':
    new = {'op': 'counter', 'col': 'cache', 'name': 'unrelated_var'}
    ops2 = ops[:i] + [new] + ops[i:]
  else:
    subs = [k for k, o in enumerate(ops) if o['op'] == 'sub']
    ops2 = list(ops)
    if len(subs) >= 2:
      a, b = subs[0], subs[-1]
      # only modules that draw nothing from the parent's position-dependent
      # state may be swapped: the children's own keys are path-addressed
      ops2[a], ops2[b] = ops2[b], ops2[a]
  c1 = dict(case, prog=dict(prog, ops=ops))
  c2 = dict(case, prog=dict(prog, ops=ops2))
  with sut('init'):
    (_, _), r1 = run_real(c1, seeds, True, fix)
    (_, _), r2 = run_real(c2, seeds, True, fix)
  def index(rec):
    occ, out = {}, {}
    for path, k, name, kd in rec:
      key = (path, k, name)
      n = occ.get(key, 0)
      occ[key] = n + 1
      out[key + (n,)] = kd
    return out
  i1, i2 = index(r1), index(r2)
  if kind == 'reorder':
    # the root's own draws keep their per-scope order; children keep theirs
    pass
  for key, kd in i1.items():
    require(key in i2, lambda: f'draw {key} disappeared after inserting an '
            f'unrelated {kind}')
    require(i2[key] == kd, lambda: f'key of draw {key} changed after '
            f'{"reordering siblings" if kind == "reorder" else "inserting an unrelated " + kind}'
            f' (fix={fix})')
  ctx.note(labels=[kind, f'fix{int(fix)}'], nontrivial=len(r1) >= 2)


# ----------------------------------------------------------------------------
def enum_paths(ctx):
  alpha = ['a', 'b', 'ab', 'ba', 'aa']
  paths = [()]
  for d in (1, 2, 3):
    paths += list(itertools.product(alpha, repeat=d))
  ctx.extra['paths'] = len(paths)
  chunks = 16
  for c in range(chunks):
    yield [c, chunks]


@clause('linen_path_injectivity', enum=enum_paths, exhaustive=True,
        quick_shards=8, thorough_shards=16,
        rule='ALL module paths over the alphabet {a,b,ab,ba,aa} up to depth 3 '
        '(156 paths) x counts 1-3: a module at each path draws make_rng; the '
        'key equals the reference; with the separator fix any two different '
        '(path, count) tuples have different pre-hash encodings and (barring a '
        'counted 32-bit hash collision) different keys; without the fix the '
        'ambiguous pairs such as ("ab","a") vs ("a","ba") are asserted to '
        'collide in the reference and in flax alike; non-trivial = every case')
def linen_path_injectivity(case, ctx):
  chunk, chunks = case
  alpha = ['a', 'b', 'ab', 'ba', 'aa']
  paths = [()]
  for d in (1, 2, 3):
    paths += list(itertools.product(alpha, repeat=d))
  mine = [p for i, p in enumerate(paths) if i % chunks == chunk]

  class Leaf(nn.Module):
    @nn.compact
    def __call__(self):
      return [L.key_data(self.make_rng('s')) for _ in range(3)]

  def build(path):
    if not path:
      return Leaf()
    class Wrap(nn.Module):
      rest: tuple
      @nn.compact
      def __call__(self):
        if len(self.rest) == 1:
          return Leaf(name=self.rest[0])()
        return Wrap(self.rest[1:], name=self.rest[0])()
    return Wrap(path)

  for fix in (False, True):
    old = flax.config.flax_fix_rng_separator
    flax.config.update('flax_fix_rng_separator', fix)
    try:
      for p in mine:
        with sut('apply'):
          got = build(p).apply({}, rngs={'s': jax.random.key(5)})
        for c in (1, 2, 3):
          exp = ref_key(5, tuple(p) + (c,), fix)
          require(tuple(got[c - 1]) == exp, lambda: f'path {p} count {c} '
                  f'fix={fix}: key {got[c - 1]} != reference {exp}')
        ctx.evaluations += 1
        ctx.note(nontrivial=True, case=[list(p), fix])
    finally:
      flax.config.update('flax_fix_rng_separator', old)
  # injectivity of the encoding (reference level) on this chunk vs all paths
  enc_fix = {}
  collisions32 = 0
  for p in paths:
    for c in (1, 2, 3):
      e = encode(tuple(p) + (c,), True)
      require(e not in enc_fix or enc_fix[e] == (p, c), lambda: 'separator '
              f'encoding not injective: {enc_fix[e]} vs {(p, c)}')
      enc_fix[e] = (p, c)
  if chunk == 0:
    # with the fix: distinct encodings => distinct keys (count collisions)
    seen = {}
    for e, pc in enc_fix.items():
      h = hashlib.sha1(e).digest()[:4]
      if h in seen:
        collisions32 += 1
      seen[h] = pc
    ctx.extra['hash32_collisions_with_fix'] = collisions32
    # without the fix the documented ambiguity must exist
    amb = encode(('ab', 'a', 1), False) == encode(('a', 'ba', 1), False)
    require(amb, 'reference: expected ambiguity without separator not found')
    ctx.extra['ambiguous_without_fix'] = True


# ----------------------------------------------------------------------------
# NNX Rngs: stateful model
# ----------------------------------------------------------------------------
NAMES = ['params', 'dropout', 'noise']


def nnx_history():
  op = st.one_of(
      st.tuples(st.just('draw'), st.sampled_from(NAMES + ['default', 'other'])),
      st.tuples(st.just('call'), st.just('')),
      # (number of splits, only this stream or all, splits spelled as a
      # tuple, squeeze when a single split)
      st.tuples(st.just('split'), st.tuples(
          st.integers(1, 3), st.sampled_from([None, None] + NAMES),
          st.booleans(), st.booleans())),
      st.tuples(st.just('restore'), st.just(0)),
      # decorator form: split for the duration of one call, which may raise
      st.tuples(st.just('split_call'), st.tuples(
          st.integers(1, 3), st.sampled_from([None] + NAMES), st.booleans(),
          st.booleans())),
      st.tuples(st.just('reseed'), st.sampled_from(NAMES + ['default'])),
      st.tuples(st.just('getitem'), st.sampled_from(NAMES + ['other'])),
  )
  return st.tuples(
      st.one_of(st.none(), st.integers(0, 20)),
      st.lists(st.sampled_from(NAMES), max_size=3, unique=True),
      st.lists(op, min_size=3, max_size=25))


@clause('nnx_rngs_history', strategy=nnx_history, quick=600, thorough=40000,
        quick_shards=4,
        rule='histories (3-25 steps) of stream draws (named, missing->default,'
        ' rngs(), rngs[name]), split_rngs (all streams or only=one, splits as '
        'int or tuple, squeeze) / restore_rngs, the decorator form around '
        'a call that returns or raises, reseed (seed given '
        'as an int or as a key array) on an '
        'nnx.Rngs with an optional default and 0-3 named streams (distinct '
        'seeds); model = stream -> (seed, count); every key equals fold_in('
        'key(seed), count); no key is ever returned twice; restore resumes '
        'strictly after the count consumed for splitting; reseed restarts at '
        'count 0; non-trivial = history contains split+restore or reseed and '
        '>=3 draws')
def nnx_rngs_history(case, ctx):
  default, named, ops = case
  seeds = {}
  if default is not None:
    seeds['default'] = default
  for i, n in enumerate(named):
    seeds[n] = 100 + 7 * i + (default or 0)
  # seeds are spelled as Python ints or as typed key arrays (same stream)
  def spell(seed, as_key):
    return jax.random.key(seed) if as_key else seed
  with sut('Rngs()'):
    kw = {n: spell(seeds[n], i % 2 == 1) for i, n in enumerate(named)}
    rngs = nnx.Rngs(default, **kw) if default is not None else nnx.Rngs(**kw)
  model = {n: [s, 0] for n, s in seeds.items()}
  seen = {}
  draws = 0
  backups = None
  split_state = None
  next_seed = [1000]
  labels = set()

  def hand_out(kd, what):
    require(kd not in seen, lambda: f'key returned twice: {what} and '
            f'{seen[kd]}')
    seen[kd] = what

  def resolve(name):
    if name in model:
      return name
    if 'default' in model:
      return 'default'
    return None

  for op, arg in ops:
    if op in ('draw', 'call', 'getitem'):
      name = 'default' if op == 'call' else arg
      if backups is not None:
        continue   # scalar draws are not meaningful on split (batched) keys
      target = resolve(name)
      if target is None:
        err = {'draw': AttributeError, 'getitem': KeyError,
               'call': AttributeError}[op]
        if op == 'call':
          expect_raises((AttributeError,), lambda: rngs(), 'rngs() no default')
        elif op == 'draw':
          expect_raises((AttributeError,), lambda: getattr(rngs, name)(),
                        'missing stream without default')
        else:
          expect_raises((KeyError,), lambda: rngs[name](), 'rngs[name]')
        labels.add('missing-error')
        continue
      with sut('draw'):
        if op == 'call':
          k = rngs()
        elif op == 'draw':
          k = getattr(rngs, name)()
        else:
          k = rngs[name]()
      seed, count = model[target]
      exp = L.key_data(jax.random.fold_in(jax.random.key(seed),
                                          jnp.uint32(count)))
      got = L.key_data(k)
      require(got == exp, lambda: f'{op}({name}) -> stream {target} count '
              f'{count}: key {got} != fold_in(key({seed}), {count}) = {exp}')
      model[target][1] += 1
      hand_out(got, (target, seed, count))
      draws += 1
      if target != name:
        labels.add('fallback')
    elif op == 'split':
      if backups is not None or not model:
        continue
      if isinstance(arg, int):
        arg = (arg, None, False, False)
      arg, only, as_tuple, squeeze = arg
      squeeze = squeeze and arg == 1
      kw = {}
      if only is not None:
        kw['only'] = only
      if squeeze:
        kw['squeeze'] = True
      with sut('split_rngs'):
        backups = nnx.split_rngs(rngs, splits=(arg,) if as_tuple and not squeeze
                                 else arg,
                                 **kw)
      split_state = {}
      labels.add('split-only' if only is not None else 'split-all')
      for n, (seed, count) in model.items():
        if only is not None and n != only:
          # streams outside `only` are left as they are
          st_ = getattr(rngs, n)
          require(st_.key.value.shape == () and L.key_data(st_.key.value) ==
                  L.key_data(jax.random.key(seed)) and int(st_.count.value)
                  == count, lambda: f'split_rngs(only={only!r}) touched '
                  f'stream {n}')
          continue
        src = jax.random.fold_in(jax.random.key(seed), jnp.uint32(count))
        exp = jax.random.split(src, arg)
        got = getattr(rngs, n).key.value
        if squeeze:
          require(got.shape == (), lambda: f'squeezed split key shape '
                  f'{got.shape}')
          got = got[None]
          cnt0 = getattr(rngs, n).count.value
          require(cnt0.shape == () and int(cnt0) == 0, 'squeezed split count')
        require(got.shape == (arg,), f'split key shape {got.shape}')
        require(np.array_equal(jax.random.key_data(got),
                               jax.random.key_data(exp)),
                f'split keys of stream {n} differ from split(fold_in(key, '
                f'count), {arg})')
        cnt = getattr(rngs, n).count.value
        require((cnt.shape == (arg,) or squeeze) and not np.any(
            np.asarray(cnt)), 'split counts must be zeros of the split shape')
        hand_out(L.key_data(src), ('split-source', n, seed, count))
        for j in range(arg):
          hand_out(L.key_data(exp[j]), ('split', n, seed, count, j))
        model[n][1] += 1          # the source key was consumed
      labels.add('split')
    elif op == 'split_call':
      if backups is not None or not model:
        continue
      n_, only, squeeze, raises = arg
      squeeze = squeeze and n_ == 1
      kw = {}
      if only is not None:
        kw['only'] = only
      if squeeze:
        kw['squeeze'] = True
      seen_inside = {}
      class Boom(Exception):
        pass
      @nnx.split_rngs(splits=n_, **kw)
      def inner(r):
        for nm in model:
          if only is None or nm == only:
            seen_inside[nm] = getattr(r, nm).key.value
        if raises:
          raise Boom()
        return 0
      with sut('split_rngs (decorator)'):
        try:
          inner(rngs)
        except Boom:
          pass
      for nm, (seed, count) in model.items():
        if only is not None and nm != only:
          continue
        src = jax.random.fold_in(jax.random.key(seed), jnp.uint32(count))
        exp = jax.random.split(src, n_)
        got = seen_inside.get(nm)
        require(got is not None and np.array_equal(
            jax.random.key_data(got if not squeeze else got[None]),
            jax.random.key_data(exp)), lambda: f'decorated call: split keys '
                f'of stream {nm} differ from split(fold_in(key, count), '
                f'{n_})')
        hand_out(L.key_data(src), ('split-source', nm, seed, count))
        for j in range(n_):
          hand_out(L.key_data(exp[j]), ('split', nm, seed, count, j))
        model[nm][1] += 1
      # whether the call returned or raised, the streams are restored
      for nm, (seed, count) in model.items():
        st_ = getattr(rngs, nm)
        require(st_.key.value.shape == () and L.key_data(st_.key.value) ==
                L.key_data(jax.random.key(seed)), lambda: f'after the '
                f'split_rngs-decorated call (raised={raises}) stream {nm} '
                f'holds a key of shape {st_.key.value.shape}, not its seed key')
        require(int(st_.count.value) == count, lambda: f'after the decorated '
                f'call (raised={raises}) stream {nm} resumes at count '
                f'{int(st_.count.value)}, model says {count}')
      labels.add('split-call-raises' if raises else 'split-call')
    elif op == 'restore':
      if backups is None:
        continue
      with sut('restore_rngs'):
        nnx.restore_rngs(backups)
      backups = None
      for n, (seed, count) in model.items():
        st_ = getattr(rngs, n)
        require(st_.key.value.shape == () and L.key_data(st_.key.value) ==
                L.key_data(jax.random.key(seed)), f'restore: key of {n}')
        require(int(st_.count.value) == count, lambda: f'restore: stream {n} '
                f'resumes at count {int(st_.count.value)}, model says {count} '
                '(must be beyond the count consumed for splitting)')
      labels.add('restore')
    elif op == 'reseed':
      if backups is not None or arg not in model:
        continue
      next_seed[0] += 1
      as_key = next_seed[0] % 2 == 0
      with sut('reseed'):
        nnx.reseed(rngs, **{arg: spell(next_seed[0], as_key)})
      model[arg] = [next_seed[0], 0]
      labels.add('reseed')
      labels.add('reseed-key' if as_key else 'reseed-int')
  if backups is not None:
    with sut('restore_rngs'):
      nnx.restore_rngs(backups)
  ctx.note(labels=sorted(labels) + [f'streams{len(model)}'],
           nontrivial=draws >= 3 and bool(labels & {'restore', 'reseed'}))


# ----------------------------------------------------------------------------
def jit_case():
  child = L.prog_strategy(allow=('rng', 'tanh'), max_depth=1, max_ops=3,
                          styles=('compact',))
  return st.tuples(child, st.integers(1, 3), st.sampled_from(['jit', 'remat']),
                   st.integers(0, 50), st.integers(1, 3))


@clause('linen_transformed_determinism', strategy=jit_case, quick=120,
        thorough=5000, quick_shards=8, shrink=False,
        rule='a child module that draws keys (also in nested scopes) is '
        'wrapped in nn.jit / nn.remat (class created once per process), '
        'called 1-3 times inside one apply, and the whole program is run 2-4 '
        'times in the same process with the same seeds: every run returns '
        'bit-identical values (the keys are a deterministic function of seed '
        'and position even when traces are cached); non-trivial = >=2 calls '
        'and a nested drawing scope')
def linen_transformed_determinism(case, ctx):
  child, calls, tr, seed, reruns = case
  child = dict(L.strip(child, ('dense', 'param')), cls='W')
  if not L.uses(child, ('rng',)):
    child = dict(child, ops=list(child['ops']) + [
        {'op': 'sub', 'prog': {'style': 'compact', 'cls': 'B', 'ops': [
            {'op': 'rng', 'stream': 'dropout'}]}, 'name': None, 'calls': 1,
         'attr': 'attr'}])
  prog = {'style': 'compact', 'cls': 'A', 'ops': [
      {'op': 'rng', 'stream': 'noise'},
      {'op': 'sub', 'prog': child, 'name': 'wrapped', 'calls': calls,
       'attr': 'attr', 'tr': tr},
      {'op': 'rng', 'stream': 'dropout'}]}
  c = {'dim': 2, 'prog': prog, 'shared': [], 'batch': [2], 'xseed': seed,
       'seed': seed}
  x = L.make_input(c)
  rngs = {'params': jax.random.key(seed), 'dropout': jax.random.key(seed + 1),
          'noise': jax.random.key(seed + 2)}
  outs = []
  for r in range(reruns + 1):
    mod = L.make_root(c)
    with sut(f'apply under {tr} (run {r})'):
      y = mod.apply({}, x, rngs=rngs)
    outs.append(np.asarray(y).tobytes())
  require(len(set(outs)) == 1, lambda: f'the same program with the same seeds '
          f'returned different values in run(s) '
          f'{[i for i, o in enumerate(outs) if o != outs[0]]} under {tr} '
          f'(child called {calls}x): a key depends on what was run before')
  nested = any(op['op'] == 'sub' for op in child['ops'])
  ctx.note(labels=[tr, f'calls{calls}'], nontrivial=calls >= 2 and nested)


# ----------------------------------------------------------------------------
# jitted methods in one process: keys depend on the position, not on history
# ----------------------------------------------------------------------------
class JDrawer(nn.Module):
  def __call__(self):
    return jax.random.key_data(self.make_rng('noise'))


def make_jouter(cls_form):
  """A fresh class (and so a fresh nn.jit trace cache) per history."""

  class JOuter(nn.Module):
    """A setup-defined child draws keys both through a plain method and
    through an nn.jit-ed one."""

    def setup(self):
      self.inner = JDrawer()
      self.other = JDrawer()

    def peek(self, which):
      return (self.inner if which == 0 else self.other)()

    def jitted(self):
      return self.inner(), self.other()

    def quiet(self, x):
      # draws nothing; rejects a wrong shape while it is traced
      if x.shape[0] != 2:
        raise ValueError('quiet: expected 2 entries')
      return x * 2.0

    def program(self, plan):
      out = []
      for step in plan:
        if step == 'j':
          out.extend(self.jitted())
        elif step == 'q':
          self.quiet(jnp.ones((2,)))
        elif step == 'r':
          # a jitted call that raises; the caller handles it and goes on
          try:
            self.quiet(jnp.ones((3,)))
          except ValueError:
            pass
        else:
          out.append(self.peek(step))
      return out

  if cls_form:
    return nn.jit(JOuter, methods=['jitted', 'quiet'])
  JOuter.jitted = nn.jit(JOuter.jitted)
  JOuter.quiet = nn.jit(JOuter.quiet)
  return JOuter


@clause('linen_jit_history',
        strategy=lambda: st.tuples(
            st.lists(st.lists(st.sampled_from([0, 0, 1, 'j', 'q', 'r']),
                              min_size=1, max_size=5).filter(
                                  lambda p: 'j' in p),
                     min_size=2, max_size=4),
            st.booleans(), st.integers(0, 2**16)),
        quick=120, thorough=5000, quick_shards=4, shrink=False,
        rule='2-4 programs (sequences of plain draws from two setup-defined '
        'children, calls of an nn.jit-ed method that draws from both, and calls '
        'of a jitted method that draws nothing and either succeeds or raises '
        'and is handled by the caller) are '
        'applied one after the other in one process with the same seed, in the '
        'given and in the reversed order (each order on a fresh class, i.e. a '
        'fresh trace cache): a program returns the same keys whatever ran '
        'before it, within one program no key is returned twice, and a handled '
        'raising call leaves the streams where a successful one leaves them; '
        'non-trivial = two programs differ only in the number of plain draws '
        'before the jitted call')
def linen_jit_history(case, ctx):
  plans, cls_form, seed = case
  plans = [tuple(p) for p in plans]
  key = jax.random.key(seed)
  results = {}
  # the same programs in two different orders, each order on its own fresh
  # class: what a program returns must not depend on what ran before it
  for order_name, order in (('given', plans + [plans[0]]),
                            ('reversed', plans[::-1] + [plans[-1]])):
    Mod = make_jouter(cls_form)
    for hi, plan in enumerate(order):
      with sut('apply'):
        keys = Mod().apply({}, plan, rngs={'noise': key}, method='program')
      got = [tuple(np.asarray(k).tolist()) for k in keys]
      require(len(set(got)) == len(got), lambda: f'program {plan}: a key was '
              f'returned twice within one apply: {got}')
      if plan in results:
        prev = results[plan]
        require(got == prev[2], lambda: f'program {plan} returned {got} at '
                f'step {hi} of the {order_name} order and {prev[2]} at step '
                f'{prev[1]} of the {prev[0]} order: keys depend on what ran '
                'earlier in the process')
      else:
        results[plan] = (order_name, hi, got)
  # a jitted call that raised and was handled leaves the streams where a
  # successful call that draws nothing leaves them
  for plan in plans:
    if 'r' in plan:
      twin = tuple('q' if st_ == 'r' else st_ for st_ in plan)
      with sut('apply (twin without the raising call)'):
        keys = make_jouter(cls_form)().apply({}, twin, rngs={'noise': key},
                                             method='program')
      got = [tuple(np.asarray(k).tolist()) for k in keys]
      require(got == results[plan][2], lambda: f'program {plan} (a jitted '
              'call raises and is handled) returns other keys than the same '
              f'program with a successful call in its place: '
              f'{results[plan][2]} vs {got}')
  nt = any(a != b and len(a) != len(b) and [x for x in a if x == 'j'] ==
           [x for x in b if x == 'j'] for a in plans for b in plans)
  ctx.note(labels=['cls-methods' if cls_form else 'decorator',
                   f'plans{len(plans)}'] + (
                       ['raising-call'] if any('r' in p for p in plans) else []),
           nontrivial=nt)
