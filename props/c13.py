"""C13 — attention and RNNs: stepwise == whole-sequence; padding/masks inert."""
from __future__ import annotations

import numpy as np
from hypothesis import strategies as st

from harness.core import begin, clause, Violation, sut, require, expect_raises

import jax
import jax.numpy as jnp
import flax.linen as nn
from flax import nnx
from flax.nnx import statelib
from flax.core import unfreeze

begin('C13')

ASSUMPTIONS = [
    'float64 under jax_enable_x64; stepwise-vs-whole and formula comparisons '
    'use rtol=1e-9; non-interference (paired inputs that differ only in '
    'ignored positions) demands bit-equal outputs at valid positions',
    'outputs at padded time steps (t >= seq_length) are unspecified by the '
    'documentation and are not compared',
    'cell formulas checked for LSTMCell, GRUCell, SimpleCell, MGUCell; '
    'OptimizedLSTMCell and ConvLSTMCell only through the RNN-vs-loop and '
    'padding clauses',
]

KEY = jax.random.key
T9 = dict(rtol=1e-9, atol=1e-10)


def close(a, b, tol=T9):
  la, lb = jax.tree_util.tree_leaves(a), jax.tree_util.tree_leaves(b)
  return len(la) == len(lb) and all(
      np.shape(x) == np.shape(y) and np.allclose(np.asarray(x), np.asarray(y),
                                                 **tol)
      for x, y in zip(la, lb))


def rnd(rng, shape):
  return rng.uniform(-1.5, 1.5, size=tuple(shape))


def randomize(tree, rng):
  return jax.tree_util.tree_map(
      lambda p: jnp.asarray(rnd(rng, np.shape(p)), jnp.float64), tree)


def softmax(z, axis=-1):
  z = z - np.max(z, axis=axis, keepdims=True)
  e = np.exp(z)
  return e / e.sum(axis=axis, keepdims=True)


# ----------------------------------------------------------------------------
@clause('attention_weights',
        strategy=lambda: st.fixed_dictionaries({
            'batch': st.lists(st.integers(1, 2), max_size=2),
            'q': st.integers(1, 4), 'k': st.integers(1, 5),
            'h': st.integers(1, 3), 'd': st.integers(1, 4),
            'bias': st.booleans(), 'mask': st.sampled_from(
                ['none', 'random', 'causal']),
            'seed': st.integers(0, 2**16)}),
        quick=160, thorough=20000, quick_shards=8, x64=True,
        rule='dot_product_attention_weights / dot_product_attention for batch '
        'shapes of rank 0-2, 1-3 heads, query/key lengths 1-5, optional bias, '
        'random / causal masks with >=1 allowed key per query: weights equal '
        'softmax(q k^T / sqrt(d) + bias) over the allowed positions and are '
        '(numerically) zero elsewhere; outputs equal weights @ values; non-'
        'trivial = mask present and some query has a masked key')
def attention_weights(case, ctx):
  rng = np.random.default_rng(case['seed'])
  b = tuple(case['batch'])
  Q, K, H, D = case['q'], case['k'], case['h'], case['d']
  q, k = rnd(rng, b + (Q, H, D)), rnd(rng, b + (K, H, D))
  v = rnd(rng, b + (K, H, D + 1))
  bias = rnd(rng, b + (H, Q, K)) if case['bias'] else None
  mask = None
  if case['mask'] == 'random':
    mask = rng.integers(0, 2, size=b + (H, Q, K)).astype(bool)
    mask[..., 0] = True
  elif case['mask'] == 'causal':
    mask = np.broadcast_to(np.tril(np.ones((Q, K), bool)), b + (H, Q, K)).copy()
  with sut('dot_product_attention_weights'):
    w = np.asarray(nn.dot_product_attention_weights(
        jnp.asarray(q), jnp.asarray(k),
        bias=None if bias is None else jnp.asarray(bias),
        mask=None if mask is None else jnp.asarray(mask)))
    out = np.asarray(nn.dot_product_attention(
        jnp.asarray(q), jnp.asarray(k), jnp.asarray(v),
        bias=None if bias is None else jnp.asarray(bias),
        mask=None if mask is None else jnp.asarray(mask)))
  logits = np.einsum('...qhd,...khd->...hqk', q, k) / np.sqrt(D)
  if bias is not None:
    logits = logits + bias
  if mask is not None:
    logits = np.where(mask, logits, -np.inf)
  ref = softmax(logits)
  require(close(w, ref), 'attention weights != softmax(qk^T/sqrt(d) + bias) '
          'over the allowed positions')
  if mask is not None:
    require(np.all(w[~mask] <= 1e-30), 'masked positions carry attention mass')
  require(close(out, np.einsum('...hqk,...khd->...qhd', ref, v)),
          'dot_product_attention != weights @ values')
  ctx.note(labels=[case['mask'], 'bias' if case['bias'] else 'nobias'],
           nontrivial=mask is not None and not mask.all())


# ----------------------------------------------------------------------------
def attn_case():
  return st.fixed_dictionaries({
      'api': st.sampled_from(['linen', 'nnx']),
      'heads': st.integers(1, 3), 'hd': st.integers(1, 3),
      'feat': st.integers(1, 4), 'T': st.integers(1, 5),
      'batch': st.lists(st.integers(1, 2), min_size=1, max_size=2),
      # tokens of an earlier sequence decoded on the same module before the
      # cache is initialised again for the sequence that is checked
      'prefix': st.sampled_from([0, 0, 1, 2, 5]),
      # non-default module options (all keep the checked relations intact)
      'use_bias': st.sampled_from([True, True, False]),
      'normalize_qk': st.sampled_from([False, False, True]),
      'inert_dropout': st.booleans(),
      'seed': st.integers(0, 2**16)})


def mha_opts(case):
  o = {}
  if not case.get('use_bias', True):
    o['use_bias'] = False
  if case.get('normalize_qk', False):
    o['normalize_qk'] = True
  if case.get('inert_dropout', False):
    o.update(dropout_rate=0.5, deterministic=True)
  return o


def copy_linen_params(nm, params):
  """linen {layer: {param: value}} -> attributes of the NNX module."""
  for name, sub in params.items():
    lay = getattr(nm, name)
    for pname, val in sub.items():
      getattr(lay, pname).value = jnp.asarray(val)


@clause('decode_vs_full', strategy=attn_case, quick=64, thorough=5000,
        quick_shards=12, thorough_shards=16, x64=True, shrink=False,
        rule='MultiHeadDotProductAttention(decode=True) (Linen cache '
        'collection) and nnx.MultiHeadAttention.init_cache: feeding T tokens '
        'one at a time gives the outputs of one causal-masked call on the '
        'whole sequence, and the cache index ends at T, also when the NNX '
        'module decoded 1-5 tokens of another sequence before init_cache '
        'was called again; non-trivial = T>=3')
def decode_vs_full(case, ctx):
  rng = np.random.default_rng(case['seed'])
  H, hd, F, T = case['heads'], case['hd'], case['feat'], case['T']
  b = tuple(case['batch'])
  x = jnp.asarray(rnd(rng, b + (T, F)))
  causal = nn.make_causal_mask(jnp.ones(b + (T,)))
  dt = dict(dtype=jnp.float64, param_dtype=jnp.float64)
  if case['api'] == 'linen':
    full = nn.MultiHeadDotProductAttention(num_heads=H, qkv_features=H * hd,
                                           out_features=F, decode=False, **dt,
                                           **mha_opts(case))
    dec = nn.MultiHeadDotProductAttention(num_heads=H, qkv_features=H * hd,
                                          out_features=F, decode=True, **dt,
                                          **mha_opts(case))
    with sut('init'):
      v = unfreeze(dec.init(KEY(0), x))
      params = randomize(v['params'], rng)
      y_full = full.apply({'params': params}, x, mask=causal)
      cache = v['cache']
      ys = []
      for t in range(T):
        yt, upd = dec.apply({'params': params, 'cache': cache},
                            x[..., t:t + 1, :], mutable=['cache'])
        cache = upd['cache']
        ys.append(yt)
    idx = int(np.asarray(cache['cache_index']))
  else:
    full = nnx.MultiHeadAttention(num_heads=H, in_features=F,
                                  qkv_features=H * hd, out_features=F,
                                  decode=False, rngs=nnx.Rngs(0), **dt,
                                  **mha_opts(case))
    with sut('nnx init'):
      st_ = nnx.state(full, nnx.Param)
      flat = dict(nnx.to_flat_state(st_))
      for p, leaf in flat.items():
        leaf.value = jnp.asarray(rnd(rng, leaf.value.shape))
      nnx.update(full, nnx.from_flat_state(flat))
      dec = nnx.MultiHeadAttention(num_heads=H, in_features=F,
                                   qkv_features=H * hd, out_features=F,
                                   decode=True, rngs=nnx.Rngs(0), **dt,
                                   **mha_opts(case))
      nnx.update(dec, nnx.state(full, nnx.Param))
      dec.init_cache(x.shape, dtype=jnp.float64)
      pre = min(case.get('prefix', 0), T)
      if pre:
        x_old = jnp.asarray(rnd(rng, b + (T, F)))
        for t in range(pre):
          dec(x_old[..., t:t + 1, :])
        # a new sequence on the same module starts with a fresh cache
        dec.init_cache(x.shape, dtype=jnp.float64)
      y_full = full(x, mask=causal)
      ys = [dec(x[..., t:t + 1, :]) for t in range(T)]
    idx = int(np.asarray(dec.cache_index.value))
  y_dec = jnp.concatenate(ys, axis=-2)
  require(close(y_dec, y_full), lambda: 'token-by-token decoding differs from '
          'the causal-masked whole-sequence call; max diff '
          f'{np.max(np.abs(np.asarray(y_dec) - np.asarray(y_full)))}')
  require(idx == T, f'cache index {idx} after {T} tokens')
  ctx.note(labels=[case['api'], f'T{T}'] + sorted(mha_opts(case)) + (
      ['reinit-cache'] if case['api'] == 'nnx' and case.get('prefix') else []),
           nontrivial=T >= 3)


# ----------------------------------------------------------------------------
@clause('mask_non_interference',
        strategy=lambda: st.fixed_dictionaries({
            'api': st.sampled_from(['linen', 'nnx']),
            'heads': st.integers(1, 2), 'feat': st.integers(1, 3),
            'T': st.integers(2, 5), 'kind': st.sampled_from(
                ['padding', 'causal', 'random', 'combined', 'combined']),
            'use_bias': st.sampled_from([True, True, False]),
            'normalize_qk': st.sampled_from([False, False, True]),
            'inert_dropout': st.booleans(),
            # keys/values come from a second input (cross attention)
            'cross': st.booleans(),
            'seed': st.integers(0, 2**16)}),
        quick=160, thorough=8000, quick_shards=8, thorough_shards=16,
        x64=True, shrink=False,
        rule='(self or cross attention; use_bias, normalize_qk, inactive '
        'dropout on/off) paired inputs that differ only at keys/values excluded by the '
        'mask (padding mask, causal mask, random mask with >=1 allowed key, or '
        '2-4 causal/padding/segment/random masks and None entries merged with '
        'the API\'s combine_masks, which must equal their logical AND): '
        'attention outputs at every query position whose allowed keys are '
        'untouched are bit-equal; non-trivial = >=1 perturbed position')
def mask_non_interference(case, ctx):
  rng = np.random.default_rng(case['seed'])
  H, F, T = case['heads'], case['feat'], case['T']
  x1 = rnd(rng, (2, T, F))
  if case['kind'] == 'padding':
    lens = rng.integers(1, T + 1, size=2)
    valid = np.arange(T)[None, :] < lens[:, None]
    mask = nn.make_attention_mask(jnp.asarray(valid), jnp.asarray(valid))
    mask = np.asarray(mask).astype(bool)
  elif case['kind'] == 'causal':
    mask = np.asarray(nn.make_causal_mask(jnp.ones((2, T)))).astype(bool)
  elif case['kind'] == 'combined':
    # 2-4 masks (plus None entries) merged with the API's combine_masks
    lens = rng.integers(1, T + 1, size=2)
    valid = np.arange(T)[None, :] < lens[:, None]
    seg = rng.integers(0, 2, size=(2, T))
    rand = rng.integers(0, 2, size=(2, 1, T, T)).astype(bool)
    rand[..., np.arange(T), np.arange(T)] = True
    pool = [np.asarray(nn.make_causal_mask(jnp.ones((2, T)))).astype(bool),
            (valid[:, None, :, None] & valid[:, None, None, :]),
            (seg[:, None, :, None] == seg[:, None, None, :]), rand]
    k = int(rng.integers(2, 5))
    parts = [pool[j] for j in rng.permutation(4)[:k]]
    true = np.ones((2, 1, T, T), bool)
    for q in parts:
      true = true & q
    given = [jnp.asarray(q) for q in parts]
    for _ in range(int(rng.integers(0, 3))):
      given.insert(int(rng.integers(0, len(given) + 1)), None)
    comb = nn.combine_masks if case['api'] == 'linen' else nnx.combine_masks
    with sut('combine_masks'):
      mask = comb(*given, dtype=bool)
    mask = np.asarray(mask)
    require(mask.dtype == np.bool_ and np.array_equal(
        np.broadcast_to(mask, true.shape), true), lambda: 'combine_masks of '
            f'{len(parts)} masks (+{len(given) - len(parts)} None) is not '
            'their logical AND: '
            f'{int((np.broadcast_to(mask, true.shape) != true).sum())} entries '
            'differ')
  else:
    mask = rng.integers(0, 2, size=(2, 1, T, T)).astype(bool)
    mask[..., np.arange(T), np.arange(T)] = True
  # keys never attended by ANY query (per batch element) may be perturbed
  mask_b = np.broadcast_to(mask, (2, mask.shape[1], T, T))
  attended = mask_b.any(axis=(1, 2))               # (batch, key)
  x2 = x1.copy()
  pert = ~attended
  if case['kind'] == 'causal':
    # perturb the future: position T-1 only influences query T-1
    pert = np.zeros((2, T), bool)
    pert[:, T - 1] = True
  x2[pert] = x2[pert] + rng.uniform(1.0, 2.0)
  dt = dict(dtype=jnp.float64, param_dtype=jnp.float64)
  cross = case.get('cross', False) and case['kind'] != 'causal'
  xq = rnd(rng, (2, T, F)) if cross else None
  def args(xkv):
    return (jnp.asarray(xq), jnp.asarray(xkv)) if cross else (
        jnp.asarray(xkv),)
  if case['api'] == 'linen':
    m = nn.MultiHeadDotProductAttention(num_heads=H, qkv_features=H * 2,
                                        out_features=F, **dt,
                                        **mha_opts(case))
    with sut('attention'):
      v = unfreeze(m.init(KEY(0), *args(x1)))
      v = {'params': randomize(v['params'], rng)}
      y1 = np.asarray(m.apply(v, *args(x1), mask=jnp.asarray(mask)))
      y2 = np.asarray(m.apply(v, *args(x2), mask=jnp.asarray(mask)))
  else:
    m = nnx.MultiHeadAttention(num_heads=H, in_features=F, qkv_features=H * 2,
                               out_features=F, decode=False,
                               rngs=nnx.Rngs(case['seed']), **dt,
                               **mha_opts(case))
    with sut('nnx attention'):
      y1 = np.asarray(m(*args(x1), mask=jnp.asarray(mask)))
      y2 = np.asarray(m(*args(x2), mask=jnp.asarray(mask)))
  # queries whose own input changed are excluded; all others must be equal
  unaffected = ~pert
  if case['kind'] == 'combined':
    # a query row with no allowed key at all is not a valid position
    unaffected = unaffected & mask_b.any(axis=(1, 3))
  if cross:
    # queries are untouched; a query row with no allowed key at all is not a
    # valid position (its softmax is over nothing)
    unaffected = mask_b.any(axis=(1, 3))
  if case['kind'] == 'causal':
    unaffected = np.ones((2, T), bool)
    unaffected[:, T - 1] = False
  require(np.array_equal(y1[unaffected], y2[unaffected]), lambda: 'outputs at '
          'positions that cannot see the perturbed keys changed; max diff '
          f'{np.max(np.abs(y1[unaffected] - y2[unaffected]))}')
  ctx.note(labels=[case['api'], case['kind']] + sorted(mha_opts(case)) + (
      ['cross'] if cross else []), nontrivial=bool(pert.any()))


# ----------------------------------------------------------------------------
CELLS = ['lstm', 'optlstm', 'gru', 'simple', 'mgu', 'convlstm']


def make_cell(name, hid, dt, **opts):
  if name == 'lstm':
    return nn.LSTMCell(hid, **dt, **opts)
  if name == 'optlstm':
    return nn.OptimizedLSTMCell(hid, **dt, **opts)
  if name == 'gru':
    return nn.GRUCell(hid, **dt, **opts)
  if name == 'simple':
    return nn.SimpleCell(hid, **dt, **opts)
  if name == 'mgu':
    return nn.MGUCell(hid, **dt, **opts)
  return nn.ConvLSTMCell(hid, (2,), **dt, **opts)


# non-default activation / gate functions with NumPy twins
ACTS = {'tanh': (jnp.tanh, np.tanh),
        'softsign': (jax.nn.soft_sign, lambda a: a / (1 + np.abs(a)))}
GATES = {'sigmoid': (jax.nn.sigmoid, lambda a: 1 / (1 + np.exp(-a))),
         'hard': (lambda a: jnp.clip(a * 0.2 + 0.5, 0.0, 1.0),
                  lambda a: np.clip(a * 0.2 + 0.5, 0.0, 1.0))}


def rnn_case():
  return st.fixed_dictionaries({
      'cell': st.sampled_from(CELLS), 'hid': st.integers(1, 3),
      'feat': st.integers(1, 3), 'T': st.integers(1, 5),
      'B': st.integers(1, 3), 'reverse': st.booleans(),
      'keep_order': st.booleans(), 'time_major': st.booleans(),
      'use_lengths': st.booleans(), 'unroll': st.sampled_from([1, 2]),
      'bidir': st.booleans(), 'override': st.booleans(),
      'initial_carry': st.booleans(), 'return_carry': st.booleans(),
      'seed': st.integers(0, 2**16)})


@clause('rnn_vs_loop', strategy=rnn_case, quick=80, thorough=6000,
        quick_shards=16, thorough_shards=16, x64=True, shrink=False,
        rule='every cell type (LSTM, OptimizedLSTM, GRU, Simple, MGU, '
        'ConvLSTM) x reverse x keep_order x time_major x seq_lengths in [1,T] '
        'x unroll x initial_carry given or default x return_carry x '
        'Bidirectional: nn.RNN outputs at valid time steps and the '
        'returned final carry equal a Python loop over the cell (reversal '
        'within each sequence\'s valid length); perturbing inputs at padded '
        'steps changes neither valid outputs nor the final carry (bit-equal); '
        'non-trivial = seq_lengths with some length < T, or reverse')
def rnn_vs_loop(case, ctx):
  rng = np.random.default_rng(case['seed'])
  T, B, F, hid = case['T'], case['B'], case['feat'], case['hid']
  dt = dict(dtype=jnp.float64, param_dtype=jnp.float64)
  cellname = case['cell']
  conv = cellname == 'convlstm'
  xshape = (B, T, 3, F) if conv else (B, T, F)
  x = rnd(rng, xshape)
  lens = rng.integers(1, T + 1, size=B) if case['use_lengths'] else np.full(
      B, T)
  cell = make_cell(cellname, hid, dt)

  # flags either as constructor attributes or as call-time overrides of a
  # default-constructed RNN (documented keyword arguments of __call__)
  call_kw = dict(time_major=case['time_major'], return_carry=True,
                 reverse=case['reverse'], keep_order=case['keep_order']) \
      if case['override'] else {}

  with sut('initialize_carry'):
    c0 = cell.initialize_carry(KEY(1), x[:, 0].shape)
  extra_kw = {}
  if case.get('initial_carry'):
    c0 = jax.tree_util.tree_map(lambda a: jnp.asarray(rnd(rng, a.shape)), c0)
    extra_kw['initial_carry'] = c0

  def run(rnn, xx, variables):
    xin = jnp.asarray(np.swapaxes(xx, 0, 1) if case['time_major'] else xx)
    out = rnn.apply(variables, xin, seq_lengths=jnp.asarray(lens) if
                    case['use_lengths'] else None, **call_kw, **extra_kw)
    carry, ys = out
    ys = np.asarray(ys)
    if case['time_major']:
      ys = np.swapaxes(ys, 0, 1)
    return carry, ys

  if case['override']:
    rnn = nn.RNN(cell, unroll=case['unroll'])
  else:
    rnn = nn.RNN(cell, time_major=case['time_major'], return_carry=True,
                 reverse=case['reverse'], keep_order=case['keep_order'],
                 unroll=case['unroll'])
  with sut('RNN init'):
    xin0 = jnp.asarray(np.swapaxes(x, 0, 1) if case['time_major'] else x)
    v = unfreeze(rnn.init(KEY(0), xin0, **call_kw))
    v = {'params': randomize(v['params'], rng)}
    carry, ys = run(rnn, x, v)
  # reference: python loop per batch element
  cvars = {'params': v['params']['cell']}
  if case.get('return_carry') is False:
    # the default return_carry=False hands back the outputs alone
    with sut('RNN(return_carry=False)'):
      rnn_nc = nn.RNN(cell, time_major=case['time_major'],
                      reverse=case['reverse'], keep_order=case['keep_order'],
                      unroll=case['unroll'])
      ys_only = rnn_nc.apply(v, xin0, seq_lengths=jnp.asarray(lens) if
                             case['use_lengths'] else None, **extra_kw)
    require(not isinstance(ys_only, tuple), 'return_carry=False returned a '
            'tuple')
    yo = np.asarray(ys_only)
    yo = np.swapaxes(yo, 0, 1) if case['time_major'] else yo
    vmask = np.arange(T)[None, :] < lens[:, None]
    # (two separately compiled programs: equal up to rounding, not bitwise)
    require(np.allclose(yo[vmask], ys[vmask], rtol=1e-12, atol=1e-12),
            lambda: 'outputs with return_carry=False differ from those with '
            'return_carry=True; max abs diff '
            f'{np.max(np.abs(yo[vmask] - ys[vmask]))}')
  ref_out = np.zeros_like(ys)
  final = []
  for bi in range(B):
    L = int(lens[bi])
    seq = x[bi, :L]
    if case['reverse']:
      seq = seq[::-1]
    c = jax.tree_util.tree_map(lambda a: a[bi:bi + 1], c0)
    outs = []
    for t in range(L):
      c, y = cell.apply(cvars, c, jnp.asarray(seq[t:t + 1]))
      outs.append(np.asarray(y)[0])
    outs = np.stack(outs)
    if case['reverse'] and case['keep_order']:
      outs = outs[::-1]
    ref_out[bi, :L] = outs
    final.append(c)
  final = jax.tree_util.tree_map(lambda *a: np.concatenate(
      [np.asarray(z) for z in a], axis=0), *final)
  valid = np.arange(T)[None, :] < lens[:, None]
  require(close(ys[valid], ref_out[valid]), lambda: f'RNN({cellname}, reverse='
          f'{case["reverse"]}, keep_order={case["keep_order"]}, time_major='
          f'{case["time_major"]}, lengths={lens.tolist()}) outputs differ '
          'from the Python loop at valid steps')
  require(close(carry, final), lambda: f'final carry differs from the loop '
          f'(lengths={lens.tolist()}, reverse={case["reverse"]})')
  # padding is inert
  if (~valid).any():
    x2 = x.copy()
    x2[~valid] = x2[~valid] + 3.0
    with sut('RNN perturbed padding'):
      carry2, ys2 = run(rnn, x2, v)
    require(np.array_equal(ys[valid], ys2[valid]), 'inputs at padded steps '
            'influence outputs at valid steps')
    l1, l2 = jax.tree_util.tree_leaves(carry), jax.tree_util.tree_leaves(carry2)
    require(all(np.array_equal(np.asarray(a), np.asarray(b))
                for a, b in zip(l1, l2)),
            'inputs at padded steps influence the returned final carry')
  if case['bidir'] and not conv:
    # the inner RNNs either carry time_major themselves or receive it from
    # Bidirectional at call time
    inner_tm = {} if case['override'] else {'time_major': case['time_major']}
    fwd = nn.RNN(make_cell(cellname, hid, dt), **inner_tm)
    bwd = nn.RNN(make_cell(cellname, hid, dt), **inner_tm)
    bi = nn.Bidirectional(fwd, bwd, time_major=case['time_major'])
    with sut('Bidirectional'):
      vb = unfreeze(bi.init(KEY(0), xin0))
      vb = {'params': randomize(vb['params'], rng)}
      yb = np.asarray(bi.apply(vb, xin0, seq_lengths=jnp.asarray(lens) if
                               case['use_lengths'] else None))
      names = sorted(vb['params'])
      f_only = nn.RNN(make_cell(cellname, hid, dt),
                      time_major=case['time_major'])
      b_only = nn.RNN(make_cell(cellname, hid, dt), reverse=True,
                      keep_order=True, time_major=case['time_major'])
      yf = np.asarray(f_only.apply({'params': vb['params']['forward_rnn']},
                                   xin0, seq_lengths=jnp.asarray(lens) if
                                   case['use_lengths'] else None))
      yr = np.asarray(b_only.apply({'params': vb['params']['backward_rnn']},
                                   xin0, seq_lengths=jnp.asarray(lens) if
                                   case['use_lengths'] else None))
    if case['time_major']:
      yb, yf, yr = (np.swapaxes(a, 0, 1) for a in (yb, yf, yr))
    cat = np.concatenate([yf, yr], axis=-1)
    require(close(yb[valid], cat[valid]), 'Bidirectional != concat(forward, '
            'length-aware reversed backward)')
    # return_carry (constructor or call time): the two final carries are
    # those of the two RNNs run on their own, padding excluded
    sl = jnp.asarray(lens) if case['use_lengths'] else None
    with sut('Bidirectional(return_carry)'):
      if case['override']:
        (cf, cb), yb2 = bi.apply(vb, xin0, seq_lengths=sl, return_carry=True)
      else:
        bi_c = nn.Bidirectional(fwd, bwd, time_major=case['time_major'],
                                return_carry=True)
        (cf, cb), yb2 = bi_c.apply(vb, xin0, seq_lengths=sl)
      cf_ref, _ = f_only.apply({'params': vb['params']['forward_rnn']}, xin0,
                               seq_lengths=sl, return_carry=True)
      cb_ref, _ = b_only.apply({'params': vb['params']['backward_rnn']}, xin0,
                               seq_lengths=sl, return_carry=True)
    require(close(cf, cf_ref), lambda: 'Bidirectional(return_carry=True): '
            'forward final carry differs from the forward RNN run on its own '
            f'(lengths={lens.tolist()})')
    require(close(cb, cb_ref), lambda: 'Bidirectional(return_carry=True): '
            'backward final carry differs from the backward RNN run on its '
            f'own (lengths={lens.tolist()})')
  ctx.note(labels=[cellname, 'rev' if case['reverse'] else 'fwd',
                   'lens' if case['use_lengths'] else 'full',
                   'call-override' if case['override'] else 'attributes'],
           nontrivial=bool((~valid).any()) or case['reverse'])


# ----------------------------------------------------------------------------
NNX_CELLS = {'lstm': nnx.LSTMCell, 'optlstm': nnx.OptimizedLSTMCell,
             'gru': nnx.GRUCell, 'simple': nnx.SimpleCell}


def nnx_rnn_case():
  return st.fixed_dictionaries({
      'cell': st.sampled_from(sorted(NNX_CELLS)), 'hid': st.integers(1, 3),
      'feat': st.integers(1, 3), 'T': st.integers(1, 5),
      'B': st.integers(1, 3), 'reverse': st.booleans(),
      'keep_order': st.booleans(), 'time_major': st.booleans(),
      'use_lengths': st.booleans(), 'unroll': st.sampled_from([1, 2]),
      'bidir': st.booleans(), 'override': st.booleans(),
      'initial_carry': st.booleans(), 'seed': st.integers(0, 2**16)})


@clause('nnx_rnn_vs_loop', strategy=nnx_rnn_case, quick=64, thorough=5000,
        quick_shards=16, thorough_shards=16, x64=True, shrink=False,
        rule='nnx.RNN over LSTM / OptimizedLSTM / GRU / Simple cells x reverse '
        'x keep_order x time_major (constructor attributes or call-time '
        'overrides) x seq_lengths in [1,T] x unroll x initial_carry given or '
        'default x nnx.Bidirectional: outputs at valid time steps and the '
        'returned final carry equal a Python loop over the same cell object '
        '(reversal within each valid length); inputs at padded steps '
        'influence neither; non-trivial = some length < T, or reverse')
def nnx_rnn_vs_loop(case, ctx):
  rng = np.random.default_rng(case['seed'])
  T, B, F, hid = case['T'], case['B'], case['feat'], case['hid']
  dt = dict(dtype=jnp.float64, param_dtype=jnp.float64)
  x = rnd(rng, (B, T, F))
  lens = rng.integers(1, T + 1, size=B) if case['use_lengths'] else np.full(
      B, T)
  def mk_cell(seed):
    c = NNX_CELLS[case['cell']](F, hid, rngs=nnx.Rngs(seed), **dt)
    r2 = np.random.default_rng(case['seed'] + seed)
    for _, v in statelib.to_flat_state(nnx.variables(c, nnx.Param)):
      v.value = jnp.asarray(rnd(r2, v.value.shape))
    return c
  cell = mk_cell(1)
  flags = dict(time_major=case['time_major'], reverse=case['reverse'],
               keep_order=case['keep_order'])
  if case['override']:
    rnn = nnx.RNN(cell, unroll=case['unroll'])
    call_kw = dict(flags, return_carry=True)
  else:
    rnn = nnx.RNN(cell, unroll=case['unroll'], return_carry=True, **flags)
    call_kw = {}
  with sut('initialize_carry'):
    c_init = cell.initialize_carry((B, F), nnx.Rngs(0))
  if case['initial_carry']:
    c_init = jax.tree_util.tree_map(
        lambda a: jnp.asarray(rnd(rng, a.shape)), c_init)
    call_kw['initial_carry'] = c_init

  def run(xx):
    xin = jnp.asarray(np.swapaxes(xx, 0, 1) if case['time_major'] else xx)
    carry, ys = rnn(xin, seq_lengths=jnp.asarray(lens) if case['use_lengths']
                    else None, **call_kw)
    ys = np.asarray(ys)
    return carry, (np.swapaxes(ys, 0, 1) if case['time_major'] else ys)
  with sut('nnx.RNN'):
    carry, ys = run(x)
  ref_out = np.zeros_like(ys)
  final = []
  with sut('cell loop'):
    for bi in range(B):
      L = int(lens[bi])
      seq = x[bi, :L][::-1] if case['reverse'] else x[bi, :L]
      c = jax.tree_util.tree_map(lambda a: a[bi:bi + 1], c_init)
      outs = []
      for t in range(L):
        c, y = cell(c, jnp.asarray(seq[t:t + 1]))
        outs.append(np.asarray(y)[0])
      outs = np.stack(outs)
      if case['reverse'] and case['keep_order']:
        outs = outs[::-1]
      ref_out[bi, :L] = outs
      final.append(c)
  final = jax.tree_util.tree_map(lambda *a: np.concatenate(
      [np.asarray(z) for z in a], axis=0), *final)
  valid = np.arange(T)[None, :] < lens[:, None]
  cfg = (f'nnx.RNN({case["cell"]}, {flags}, lengths={lens.tolist()}, '
         f'override={case["override"]})')
  require(close(ys[valid], ref_out[valid]), lambda: f'{cfg}: outputs differ '
          'from the Python loop at valid steps')
  require(close(carry, final), lambda: f'{cfg}: final carry differs from the '
          'Python loop')
  if (~valid).any():
    x2 = x.copy()
    x2[~valid] = x2[~valid] + 3.0
    with sut('nnx.RNN perturbed padding'):
      carry2, ys2 = run(x2)
    require(np.array_equal(ys[valid], ys2[valid]), f'{cfg}: inputs at padded '
            'steps influence outputs at valid steps')
    require(all(np.array_equal(np.asarray(a), np.asarray(b)) for a, b in zip(
        jax.tree_util.tree_leaves(carry), jax.tree_util.tree_leaves(carry2))),
            f'{cfg}: inputs at padded steps influence the final carry')
  if case['bidir']:
    tm = case['time_major']
    f_rnn = nnx.RNN(mk_cell(2), time_major=tm)
    b_rnn = nnx.RNN(mk_cell(3), time_major=tm)
    with sut('nnx.Bidirectional'):
      bi = nnx.Bidirectional(f_rnn, b_rnn, time_major=tm)
      xin = jnp.asarray(np.swapaxes(x, 0, 1) if tm else x)
      sl = jnp.asarray(lens) if case['use_lengths'] else None
      yb = np.asarray(bi(xin, seq_lengths=sl))
      yf = np.asarray(f_rnn(xin, seq_lengths=sl))
      ybk = np.asarray(b_rnn(xin, seq_lengths=sl, reverse=True,
                             keep_order=True))
    if tm:
      yb, yf, ybk = (np.swapaxes(a, 0, 1) for a in (yb, yf, ybk))
    exp = np.concatenate([yf, ybk], axis=-1)
    require(yb.shape == exp.shape and close(yb[valid], exp[valid]),
            'nnx.Bidirectional differs from concat(forward RNN, backward RNN '
            'run in reverse and restored to input order)')
  ctx.note(labels=[case['cell'], 'override' if case['override'] else 'ctor',
                   'init-carry' if case['initial_carry'] else 'zero-carry']
           + (['bidir'] if case['bidir'] else []),
           nontrivial=bool((lens < T).any()) or case['reverse'])


# ----------------------------------------------------------------------------
def sig(z):
  return 1.0 / (1.0 + np.exp(-z))


@clause('cell_formulas',
        strategy=lambda: st.fixed_dictionaries({
            'cell': st.sampled_from(['lstm', 'optlstm', 'gru', 'simple',
                                     'mgu']),
            'hid': st.integers(1, 4), 'feat': st.integers(1, 4),
            'B': st.integers(1, 3), 'seed': st.integers(0, 2**16),
            # non-default configuration of the cell
            'act': st.sampled_from(['tanh', 'tanh', 'softsign']),
            'gate': st.sampled_from(['sigmoid', 'sigmoid', 'hard']),
            'flag': st.booleans()}),
        quick=200, thorough=10000, quick_shards=4, x64=True, shrink=False,
        rule='one step of LSTMCell / OptimizedLSTMCell / GRUCell / SimpleCell '
        '(residual on/off) / MGUCell (reset_gate on/off), default or custom '
        'activation and gate functions, with random parameters and carries vs a NumPy implementation of the '
        'documented recurrence; Linen LSTMCell vs nnx.LSTMCell on copied '
        'parameters; non-trivial = every case')
def cell_formulas(case, ctx):
  rng = np.random.default_rng(case['seed'])
  B, F, H = case['B'], case['feat'], case['hid']
  dt = dict(dtype=jnp.float64, param_dtype=jnp.float64)
  x = rnd(rng, (B, F))
  name = case['cell']
  act_j, act = ACTS[case.get('act', 'tanh')]
  gate_j, gate = GATES[case.get('gate', 'sigmoid')]
  flag = case.get('flag', False)
  opts = {}
  if case.get('act', 'tanh') != 'tanh':
    opts['activation_fn'] = act_j
  if case.get('gate', 'sigmoid') != 'sigmoid' and name != 'simple':
    opts['gate_fn'] = gate_j
  if name == 'simple' and flag:
    opts['residual'] = True          # pre-activation residual (documented)
  if name == 'mgu' and flag:
    opts['reset_gate'] = False
  cell = make_cell(name, H, dt, **opts)
  sig_ = gate if name != 'simple' else None
  if name in ('lstm', 'optlstm'):
    carry = (jnp.asarray(rnd(rng, (B, H))), jnp.asarray(rnd(rng, (B, H))))
  else:
    carry = jnp.asarray(rnd(rng, (B, H)))
  with sut('cell'):
    v = unfreeze(cell.init(KEY(0), carry, jnp.asarray(x)))
    p = randomize(v['params'], rng)
    new_carry, y = cell.apply({'params': p}, carry, jnp.asarray(x))
  P = jax.tree_util.tree_map(np.asarray, p)
  lin = lambda n, inp: inp @ P[n]['kernel'] + (P[n]['bias'] if 'bias' in P[n]
                                                else 0.0)
  cfg = f'{type(cell).__name__}({opts})'
  sig = sig_ if sig_ is not None else globals()['sig']
  if name in ('lstm', 'optlstm'):
    c, h = np.asarray(carry[0]), np.asarray(carry[1])
    i = sig(lin('ii', x) + lin('hi', h))
    f = sig(lin('if', x) + lin('hf', h))
    g = act(lin('ig', x) + lin('hg', h))
    o = sig(lin('io', x) + lin('ho', h))
    c2 = f * c + i * g
    h2 = o * act(c2)
    require(close(new_carry, (c2, h2)) and close(y, h2),
            f'{cfg} differs from the documented recurrence')
  if name == 'lstm':
    # Linen vs NNX
    with sut('nnx.LSTMCell'):
      nc = nnx.LSTMCell(F, H, rngs=nnx.Rngs(0), **dt, **opts)
      for ln, nn_ in (('ii', 'ii'), ('if', 'if_'), ('ig', 'ig'), ('io', 'io'),
                      ('hi', 'hi'), ('hf', 'hf'), ('hg', 'hg'), ('ho', 'ho')):
        lay = getattr(nc, nn_)
        lay.kernel.value = jnp.asarray(P[ln]['kernel'])
        if 'bias' in P[ln]:
          lay.bias.value = jnp.asarray(P[ln]['bias'])
      ncarry, ny = nc(carry, jnp.asarray(x))
    require(close(ncarry, new_carry) and close(ny, y),
            'nnx.LSTMCell differs from linen LSTMCell on the same parameters')
  elif name == 'gru':
    h = np.asarray(carry)
    r = sig(lin('ir', x) + lin('hr', h))
    z = sig(lin('iz', x) + lin('hz', h))
    n = act(lin('in', x) + r * lin('hn', h))
    h2 = (1 - z) * n + z * h
    require(close(new_carry, h2) and close(y, h2),
            f'{cfg} differs from the documented recurrence')
  elif name == 'simple':
    h = np.asarray(carry)
    pre = lin('i', x) + lin('h', h)
    if opts.get('residual'):
      pre = pre + h
    h2 = act(pre)
    require(close(new_carry, h2) and close(y, h2),
            f'{cfg} differs from act(W_i x + b + W_h h [+ h])')
  elif name == 'mgu':
    h = np.asarray(carry)
    f = sig(lin('if', x) + lin('hf', h))
    if opts.get('reset_gate', True):
      n = act(lin('in', x) + f * lin('hn', h))
    else:
      n = act(lin('in', x) + lin('hn', h))
    h2 = (1 - f) * n + f * h
    require(close(new_carry, h2) and close(y, h2),
            f'{cfg} differs from the documented recurrence')
  ctx.note(labels=[name] + sorted(opts), nontrivial=True)


# ----------------------------------------------------------------------------
@clause('attention_linen_vs_nnx', strategy=attn_case, quick=60,
        thorough=4000, quick_shards=6, x64=True, shrink=False,
        rule='linen MultiHeadDotProductAttention vs nnx.MultiHeadAttention on '
        'copied query/key/value/out parameters, with a random mask: outputs '
        'agree to 1e-9; non-trivial = heads>=2')
def attention_linen_vs_nnx(case, ctx):
  rng = np.random.default_rng(case['seed'])
  H, hd, F, T = case['heads'], case['hd'], case['feat'], case['T']
  b = tuple(case['batch'])
  x = jnp.asarray(rnd(rng, b + (T, F)))
  mask = rng.integers(0, 2, size=b + (1, T, T)).astype(bool)
  mask[..., np.arange(T), np.arange(T)] = True
  dt = dict(dtype=jnp.float64, param_dtype=jnp.float64)
  lm = nn.MultiHeadDotProductAttention(num_heads=H, qkv_features=H * hd,
                                       out_features=F, **dt, **mha_opts(case))
  with sut('linen'):
    v = unfreeze(lm.init(KEY(0), x))
    v = {'params': randomize(v['params'], rng)}
    yl = lm.apply(v, x, mask=jnp.asarray(mask))
  with sut('nnx'):
    nm = nnx.MultiHeadAttention(num_heads=H, in_features=F,
                                qkv_features=H * hd, out_features=F,
                                decode=False, rngs=nnx.Rngs(0), **dt,
                                **mha_opts(case))
    copy_linen_params(nm, v['params'])
    yn = nm(x, mask=jnp.asarray(mask))
  # one of the two APIs evaluates the softmax in float32 even with
  # dtype=float64 (differences ~1e-8): agreement is demanded at float32 level
  require(close(yl, yn, dict(rtol=1e-6, atol=1e-6)), 'nnx.MultiHeadAttention '
          'differs from linen on the same parameters')
  ctx.note(labels=sorted(mha_opts(case)), nontrivial=H >= 2)
