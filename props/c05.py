"""C05 — lifted jit/remat/cond/switch/while_loop/map_variables act like the
plain code."""
from __future__ import annotations

from typing import Any

import numpy as np
from hypothesis import strategies as st

from harness.core import begin, clause, Violation, sut, require, expect_raises
from harness import linen_dsl as L
from props.c01 import filter_strategy, build_filter, in_ref

import jax
import jax.numpy as jnp
import flax.linen as nn
from flax import errors as ferrors
from flax.core import unfreeze

begin('C05')

ASSUMPTIONS = [
    'the transformed region is one sub-module (class transform) or one '
    'cond/switch/while_loop call site inserted at a generated position of a '
    'generated program; the reference is the same program with the marker '
    'removed / the Python if, index, for-loop',
    'under nn.jit parameter *values* created at init are not compared with '
    'the plain program (RNG derivation differs by design); shapes, '
    'determinism and all apply-time results are',
    'map_variables is used in the documented identity idiom '
    '(init=self.is_initializing()) over the params collection',
]


def out_eq(a, b, tol=1e-6):
  a, b = np.asarray(a), np.asarray(b)
  return a.shape == b.shape and np.allclose(a, b, rtol=tol, atol=tol)


def tree_close(a, b, tol=1e-6):
  fa, fb = L.flat(a), L.flat(b)
  if set(fa) != set(fb):
    return False
  for k in fa:
    la, lb = jax.tree_util.tree_leaves(fa[k]), jax.tree_util.tree_leaves(fb[k])
    if len(la) != len(lb) or not all(out_eq(x, y, tol) for x, y in zip(la, lb)):
      return False
  return True


def rename(tree, path, old, new):
  """Rename key `old`->`new` at module path `path` in every collection."""
  if old == new:
    return tree
  out = {}
  for col, sub in tree.items():
    sub = unfreeze(sub) if hasattr(sub, 'unfreeze') else sub
    def rec(node, p):
      if not p:
        if isinstance(node, dict) and old in node:
          node = dict(node)
          node[new] = node.pop(old)
        return node
      if isinstance(node, dict) and p[0] in node:
        node = dict(node)
        node[p[0]] = rec(node[p[0]], p[1:])
      return node
    out[col] = rec(sub, path)
  return out


def child_prog():
  return L.prog_strategy(allow=('counter', 'stat', 'tanh', 'sow', 'rng'),
                         max_depth=1,
                         max_ops=4, styles=('compact',)).flatmap(
                             lambda p: st.sampled_from([None, None, 'dropout',
                                                        'noise']).map(
                                 lambda s_: dict(
                                     p, cls='W',
                                     ops=list(p['ops']) + ([{
                                         'op': 'rng', 'stream': s_}]
                                                           if s_ else []))))


def t_case():
  return st.tuples(
      L.case_strategy(allow=('counter', 'stat', 'tanh', 'rng'), max_depth=1,
                      max_ops=3, styles=('compact',)),
      child_prog(), st.integers(0, 5), st.sampled_from(L.ALL_TR),
      st.booleans(), st.sampled_from([1, 2, 2]),
      # history entries mostly share one filter (same module fingerprint) and
      # differ in the child variant / input shape
      st.tuples(filter_strategy(),
                st.lists(st.tuples(st.one_of(st.none(), st.none(),
                                             filter_strategy()),
                                   st.sampled_from([0, 0, 1]),
                                   st.integers(0, 1)), min_size=1,
                         max_size=4)).map(
                             lambda t: [[f if f is not None else t[0], v, b]
                                        for f, v, b in t[1]]))


@clause('class_transforms', strategy=t_case, quick=220, thorough=8000,
        quick_shards=11, thorough_shards=16, shrink=False,
        rule='a generated child module (params, counters, running stats, sow) '
        'is inserted at a random position of a generated parent program, once '
        'plain and once wrapped in nn.jit / nn.jit(variables=[...]) / nn.remat '
        '/ identity nn.map_variables, explicitly named or auto-named, called '
        '1-2 times; init trees agree up to the transformed class name (values '
        'too, except under jit); for a history of 1-3 mutable filters applied '
        'on one module instance, outputs and returned collections equal the '
        'plain program, also when a second module instance of the same '
        'transformed class with different attributes (another child program on '
        'the same variables) and a second input shape are interleaved; a '
        'repeated configuration returns bit-identical values (random draws '
        'included) and does not re-trace the jitted child; non-trivial = child has state and some filter is neither True '
        'nor False, or the history has >=2 different filters')
def class_transforms(case, ctx):
  case, child, pos, tr, named, calls, filters = case
  case = L.normalize_case(dict(case, shared=[]))
  ops = list(case['prog']['ops'])
  i = pos % (len(ops) + 1)
  name = 'wrapped' if named else None
  # variant 1 of the child computes something else on the same variables
  child_v = [child, dict(child, ops=list(child['ops']) + [{'op': 'tanh'}])]
  def with_child(t, variant=0):
    op = {'op': 'sub', 'prog': child_v[variant], 'name': name, 'calls': calls,
          'attr': 'attr'}
    if t:
      op['tr'] = t
    return dict(case, prog=dict(case['prog'], ops=ops[:i] + [op] + ops[i:]))
  plain, trans = with_child(None), with_child(tr)
  name_plain = name or 'NodeW_0'
  name_tr = name or (L.TR_PREFIX[tr] + 'NodeW_0')
  mp, mt = L.make_root(plain), L.make_root(trans)
  x = L.make_input(case)
  # a second input shape (extra leading batch dim) for histories that force a
  # re-trace of an already known module
  xs = [x, jnp.stack([x, x * 0.5, x + 1.0])]
  seed = case['seed']
  key = {'params': jax.random.key(seed), 'dropout': jax.random.key(seed + 1),
         'noise': jax.random.key(seed + 2)}
  arng = {'dropout': jax.random.key(seed + 3), 'noise': jax.random.key(seed + 4)}
  child_draws = L.uses(child, ('rng',))
  with sut('init plain'):
    yp, vp = mp.init_with_output(key, x)
  with sut(f'init {tr}'):
    yt, vt = mt.init_with_output(key, x)
    yt2, vt2 = mt.init_with_output(key, x)
  require(tree_close(vt, vt2, 0) and out_eq(yt, yt2, 0),
          f'init under {tr} is not deterministic')
  vt_r = rename(unfreeze(vt), (), name_tr, name_plain)
  obs = ('intermediates', 'aux')
  sp = {k: np.shape(v) for k, v in L.flat({c: vp[c] for c in vp
                                           if c not in obs}).items()}
  st_ = {k: np.shape(v) for k, v in L.flat({c: vt_r[c] for c in vt_r
                                            if c not in obs}).items()}
  require(sp == st_, lambda: f'init tree under {tr} differs from the plain '
          f'program beyond the transformed class name:\n plain {sorted(sp)}\n '
          f'{tr} {sorted(st_)}')
  # (map_variables(init=True) runs the body an extra time at init, so only
  # remat is promised to reproduce the plain program's random draws)
  same_values = named and (tr == 'remat' or (
      tr in ('map_id', 'map_id_filter') and not L.uses(child, ('rng',))))
  if same_values:
    require(tree_close({c: vp[c] for c in vp if c not in obs},
                       {c: vt_r[c] for c in vt_r if c not in obs}),
            f'init values under {tr} differ from the plain program')
    require(out_eq(yp, yt), f'init output under {tr} differs')
  # apply history on one module instance, plain variables (renamed)
  base_p = {c: unfreeze(vp)[c] for c in vp if c not in obs}
  base_t = rename(base_p, (), name_plain, name_tr)
  seen_cfg = {}
  mps = [mp, L.make_root(with_child(None, 1))]
  mts = [mt, L.make_root(with_child(tr, 1))]
  # random draws inside the wrapped child are only comparable with the plain
  # program where the statement promises it (remat / map_variables with an
  # explicit name: same scope path); otherwise they must merely be
  # reproducible, which the repeat check below covers
  cmp_plain = (not child_draws) or (named and tr == 'remat')
  first_seen = {}
  # every history ends with a repeat of its last and of its first entry, so
  # "same configuration again after something else was traced" always occurs
  filters = list(filters) + [filters[-1], filters[0]]
  for hi, (f, variant, bshape) in enumerate(filters):
    mutable = build_filter(f)
    xx = xs[bshape]
    with sut('apply plain'):
      rp = mps[variant].apply(base_p, xx, mutable=mutable, rngs=arng)
    cname = 'NodeW'
    n0 = L.CALLS.get(cname, 0)
    with sut(f'apply {tr}'):
      rt = mts[variant].apply(base_t, xx, mutable=mutable, rngs=arng)
    traced = L.CALLS.get(cname, 0) - n0
    # the same configuration must give bit-identical results whenever it is
    # repeated, whatever was traced in between
    cfg_key = repr((f, variant, bshape))
    flat_now = [np.asarray(a).tobytes() for a in jax.tree_util.tree_leaves(rt)]
    if cfg_key in first_seen:
      require(flat_now == first_seen[cfg_key][1], lambda: f'apply #{hi} '
              f'repeats the configuration of apply #{first_seen[cfg_key][0]} '
              f'(same module, variables, inputs and rngs) under {tr} but '
              'returns different values')
    else:
      first_seen[cfg_key] = (hi, flat_now)
    if not cmp_plain:
      cfg = repr((f, variant, bshape))
      seen_cfg.setdefault(cfg, hi)
      continue
    if mutable is False:
      require(out_eq(rp, rt), lambda: f'apply #{hi} (mutable=False): {tr} '
              f'output differs from the plain program')
    else:
      require(out_eq(rp[0], rt[0]), lambda: f'apply #{hi} (mutable='
              f'{mutable!r}): {tr} output differs from the plain program')
      up = unfreeze(rp[1])
      ut = rename(unfreeze(rt[1]), (), name_tr, name_plain)
      require(set(up) == set(ut), lambda: f'apply #{hi} (mutable={mutable!r})'
              f': {tr} returns collections {sorted(ut)}, plain {sorted(up)}')
      require(tree_close(up, ut), lambda: f'apply #{hi} (mutable={mutable!r})'
              f': updated collections under {tr} differ from plain')
    cfg = repr((f, variant, bshape))
    if tr in ('jit', 'jit_filter') and cfg in seen_cfg:
      require(traced == 0, lambda: f'apply #{hi}: same configuration as apply '
              f'#{seen_cfg[cfg]} but the jitted child was traced again')
    seen_cfg.setdefault(cfg, hi)
  stateful = L.uses(child, ('counter', 'stat', 'sow'))
  ctx.note(labels=[tr, 'named' if named else 'auto', f'calls{calls}',
                   'stateful' if stateful else 'stateless'],
           nontrivial=(stateful and any(f['t'] not in ('true', 'false')
                                        for f, _, _ in filters))
           or len({repr(f) for f in filters}) >= 2)


# ----------------------------------------------------------------------------
def shared_case():
  sp = L.prog_strategy(('counter', 'stat', 'tanh'), 1, 3, ('compact',))
  return st.tuples(
      st.lists(sp, min_size=1, max_size=3),
      L.prog_strategy(allow=('counter', 'stat', 'tanh'), max_depth=1,
                      max_ops=2, styles=('compact',)),
      st.lists(st.integers(0, 2), min_size=1, max_size=4),
      st.sampled_from(L.ALL_TR), st.booleans(),
      st.sampled_from(['before', 'after', 'never']),
      st.integers(1, 3), st.integers(0, 2**16),
      st.lists(filter_strategy(), min_size=1, max_size=2))


@clause('shared_attributes', strategy=shared_case, quick=130, thorough=5000,
        quick_shards=8, thorough_shards=16, shrink=False,
        rule='1-3 generated modules owned by the root are handed to a child '
        'as dataclass attributes (a tuple attribute and, from two modules on, '
        'a second attribute whose declaration order differs from its sorted '
        'order); the child calls them in a generated order next to its own '
        'ops, the root may call them too (before or after the child); the '
        'child is plain or wrapped in nn.jit / nn.jit(variables=...) / '
        'nn.remat / identity nn.map_variables; init tree (values too under '
        'remat) and, for 1-2 mutable filters, outputs and returned '
        'collections equal the plain program; non-trivial = >=2 shared '
        'modules with different programs are called inside the child')
def shared_attributes(case, ctx):
  progs, own, order, tr, named, root_use, dim, seed, filters = case
  progs = [L.dedupe_names(dict(p, cls='AB'[i % 2])) for i, p in
           enumerate(progs)]
  name = 'wrapped' if named else None
  child_ops = []
  own_ops = list(own['ops'])
  for k, j in enumerate(order):
    child_ops.append({'op': 'shared', 'j': j % len(progs)})
    if k < len(own_ops):
      child_ops.append(own_ops[k])
  child = L.dedupe_names(dict(own, cls='W', style='compact', ops=child_ops))

  def root(t):
    op = {'op': 'sub', 'prog': child, 'name': name, 'calls': 1,
          'attr': 'attr'}
    if t:
      op['tr'] = t
    rops = [op]
    if root_use == 'before':
      rops = [{'op': 'shared', 'j': 0}] + rops
    elif root_use == 'after':
      rops = rops + [{'op': 'shared', 'j': len(progs) - 1}]
    return L.normalize_case({
        'dim': dim, 'prog': {'style': 'compact', 'cls': 'A', 'ops': rops},
        'shared': progs, 'batch': [2], 'xseed': seed, 'seed': seed})
  plain, trans = root(None), root(tr)
  name_plain = name or 'NodeW_0'
  name_tr = name or (L.TR_PREFIX[tr] + 'NodeW_0')
  mp, mt = L.make_root(plain), L.make_root(trans)
  x = L.make_input(plain)
  key = {'params': jax.random.key(seed)}
  with sut('init plain'):
    yp, vp = mp.init_with_output(key, x)
  with sut(f'init {tr}'):
    yt, vt = mt.init_with_output(key, x)
  vt_r = rename(unfreeze(vt), (), name_tr, name_plain)
  sp = {k: np.shape(v) for k, v in L.flat(unfreeze(vp)).items()}
  st_ = {k: np.shape(v) for k, v in L.flat(vt_r).items()}
  require(sp == st_, lambda: f'init tree under {tr} differs from the plain '
          f'program beyond the transformed class name:\n plain {sorted(sp)}\n '
          f'{tr} {sorted(st_)}')
  if named and tr == 'remat':
    require(tree_close(unfreeze(vp), vt_r),
            f'init values under {tr} differ from the plain program')
    require(out_eq(yp, yt), f'init output under {tr} differs')
  base_p = unfreeze(vp)
  base_t = rename(base_p, (), name_plain, name_tr)
  for hi, f in enumerate(filters):
    mutable = build_filter(f)
    with sut('apply plain'):
      rp = mp.apply(base_p, x, mutable=mutable)
    with sut(f'apply {tr}'):
      rt = mt.apply(base_t, x, mutable=mutable)
    if mutable is False:
      require(out_eq(rp, rt), lambda: f'apply (mutable=False): {tr} output '
              f'{np.asarray(rt)} differs from the plain program '
              f'{np.asarray(rp)}')
    else:
      require(out_eq(rp[0], rt[0]), lambda: f'apply (mutable={mutable!r}): '
              f'{tr} output differs from the plain program')
      up = unfreeze(rp[1])
      ut = rename(unfreeze(rt[1]), (), name_tr, name_plain)
      require(set(up) == set(ut), lambda: f'apply (mutable={mutable!r}): '
              f'{tr} returns collections {sorted(ut)}, plain {sorted(up)}')
      require(tree_close(up, ut), lambda: f'apply (mutable={mutable!r}): '
              f'updated collections under {tr} differ from plain')
  used = {j % len(progs) for j in order}
  distinct = len({repr(progs[j]['ops']) for j in used}) >= 2
  ctx.note(labels=[tr, f'shared{len(progs)}', f'used{len(used)}',
                   f'root-{root_use}', 'named' if named else 'auto'],
           nontrivial=len(used) >= 2 and distinct)


# ----------------------------------------------------------------------------
# transforms used as *method* decorators
# ----------------------------------------------------------------------------
class MLeaf(nn.Module):
  dim: int = 2

  @nn.compact
  def __call__(self, x):
    w = self.param('w', nn.initializers.normal(1.0), (self.dim,))
    c = self.variable('counters', 'n', lambda: jnp.zeros((), jnp.int32))
    if self.is_mutable_collection('counters'):
      c.value = c.value + 1
    return x * w + 0.125 * c.value.astype(x.dtype)


class MNode(nn.Module):
  """Compact module whose body calls helper methods; the helpers create
  auto-named sub-modules, sow and draw random numbers in the module's own
  scope.  `mode` selects the plain helper or its nn.jit / nn.remat version."""
  spec: Any = None
  dim: int = 2
  mode: str = 'plain'

  def _ops(self, x, ops):
    for op in ops:
      k = op['op']
      if k == 'dense':
        x = nn.Dense(self.dim)(x)
      elif k == 'child':
        x = MLeaf(self.dim)(x)
      elif k == 'sow':
        self.sow('intermediates', op['name'], x)
      elif k == 'rng':
        x = x + jax.random.uniform(self.make_rng('noise'), ())
      elif k == 'tanh':
        x = jnp.tanh(x)
      elif k == 'call':
        x = getattr(self, f'h{op["h"]}_{self.mode}')(x)
    return x

  @nn.compact
  def __call__(self, x):
    return self._ops(x, L.thaw(self.spec)['body'])

  def h0_plain(self, x):
    return self._ops(x, L.thaw(self.spec)['helpers'][0])

  def h1_plain(self, x):
    return self._ops(x, L.thaw(self.spec)['helpers'][1])


for _h in ('h0', 'h1'):
  setattr(MNode, f'{_h}_jit', nn.jit(getattr(MNode, f'{_h}_plain')))
  setattr(MNode, f'{_h}_remat', nn.remat(getattr(MNode, f'{_h}_plain')))


class MMid(nn.Module):
  """A stateful leaf one level further down (setup-defined)."""
  dim: int = 2

  def setup(self):
    self.counter = MLeaf(self.dim)

  def __call__(self, x):
    return jnp.tanh(self.counter(x)) + x


class SNode(nn.Module):
  """Setup-style twin of MNode: the sub-modules exist once and are used by
  the body and by the (transformed) helper methods, before and after each
  other."""
  spec: Any = None
  dim: int = 2
  mode: str = 'plain'

  def setup(self):
    self.mid = MMid(self.dim)
    self.leaf = MLeaf(self.dim)
    self.lin = nn.Dense(self.dim)

  def _ops(self, x, ops):
    for op in ops:
      k = op['op']
      if k in ('dense', 'mid'):
        x = self.mid(x)         # stateful two levels down
      elif k == 'child':
        x = self.leaf(x)        # stateful one level down
      elif k == 'sow':
        x = self.lin(x)
      elif k == 'tanh':
        x = jnp.tanh(x)
      elif k == 'rng':
        x = x + jax.random.uniform(self.make_rng('noise'), ())
      elif k == 'call':
        x = getattr(self, f'h{op["h"]}_{self.mode}')(x)
    return x

  def __call__(self, x):
    return self._ops(x, L.thaw(self.spec)['body'])

  def h0_plain(self, x):
    return self._ops(x, L.thaw(self.spec)['helpers'][0])

  def h1_plain(self, x):
    return self._ops(x, L.thaw(self.spec)['helpers'][1])


for _h in ('h0', 'h1'):
  setattr(SNode, f'{_h}_jit', nn.jit(getattr(SNode, f'{_h}_plain')))
  setattr(SNode, f'{_h}_remat', nn.remat(getattr(SNode, f'{_h}_plain')))


# the same helpers transformed through the class form, nn.jit(Cls, methods=...)
METHOD_CLS = {
    'cls_jit': nn.jit(MNode, methods=['h0_plain', 'h1_plain']),
    'cls_remat': nn.remat(MNode, methods=['h0_plain', 'h1_plain']),
}
METHOD_CLS_SETUP = {
    'cls_jit': nn.jit(SNode, methods=['h0_plain', 'h1_plain']),
    'cls_remat': nn.remat(SNode, methods=['h0_plain', 'h1_plain']),
}


def method_case():
  def make(style):
    if style == 'setup':
      # dense -> the sub-module that is stateful two levels down, child ->
      # the one that is stateful one level down; dense alphabet so that
      # "used outside, inside a transformed helper, outside again" is common
      hop = st.sampled_from([{'op': 'dense'}, {'op': 'dense'},
                             {'op': 'child'}, {'op': 'tanh'}])
      min_body = 3
    else:
      hop = st.sampled_from([{'op': 'dense'}, {'op': 'dense'},
                             {'op': 'child'}, {'op': 'sow', 'name': 's'},
                             {'op': 'rng'}, {'op': 'tanh'}])
      min_body = 1
    helper = st.lists(hop, min_size=1, max_size=3)
    bop = st.one_of(hop, st.sampled_from([{'op': 'call', 'h': 0},
                                          {'op': 'call', 'h': 0},
                                          {'op': 'call', 'h': 1}]))
    return st.fixed_dictionaries({
        'helpers': st.tuples(helper, helper).map(list),
        'body': st.lists(bop, min_size=min_body, max_size=6 if style ==
                         'setup' else 5),
        'dim': st.integers(1, 3), 'mode': st.sampled_from(
            ['jit', 'jit', 'remat', 'cls_jit', 'cls_remat']),
        'seed': st.integers(0, 2**16),
        # compact (sub-modules created where they are used) or setup style
        # (the same sub-modules used by body and helpers, in any order)
        'style': st.just(style),
        'filters': st.lists(st.sampled_from([
            False, True, ['counters'], ['counters', 'intermediates'],
            ['intermediates']]), min_size=1, max_size=2)})
  return st.one_of(make('compact'), make('compact'), make('setup'))


@clause('method_transforms', strategy=method_case, quick=200, thorough=8000,
        quick_shards=8, thorough_shards=16, shrink=False,
        rule='a compact module (or a setup-style one whose sub-modules, one '
        'of them stateful two levels down, are shared by body and helpers) '
        'whose body (1-5 ops) calls one or two helper '
        'methods, each 0-3 times; helpers create auto-named Dense / custom '
        'sub-modules with a counter, sow and draw random numbers in the '
        'module scope; the helpers are plain methods, decorated with '
        'nn.jit / nn.remat, or transformed through nn.jit/nn.remat(Cls, '
        'methods=[...]): init creates the same variable tree (same values '
        'under remat), and applying the plain init variables with 1-2 '
        'mutable filters gives the same output and updates as the plain '
        'methods (random draws compared under remat; under jit only '
        'repeatability); non-trivial = a helper that creates sub-modules is '
        'called at least twice')
def method_transforms(case, ctx):
  spec = L.freeze_json({'body': case['body'], 'helpers': case['helpers']})
  D, mode, seed = case['dim'], case['mode'], case['seed']
  setup_style = case.get('style', 'compact') == 'setup'
  Node = SNode if setup_style else MNode
  plain = Node(spec=spec, dim=D, mode='plain')
  if mode in METHOD_CLS:
    trans = (METHOD_CLS_SETUP if setup_style else METHOD_CLS)[mode](
        spec=spec, dim=D, mode='plain')
  else:
    trans = Node(spec=spec, dim=D, mode=mode)
  is_remat = mode.endswith('remat')
  x = jnp.asarray(np.random.default_rng(seed).normal(size=(2, D)),
                  jnp.float32)
  keys = {'params': jax.random.key(seed), 'noise': jax.random.key(seed + 1)}
  with sut('init plain methods'):
    yp, vp = plain.init_with_output(keys, x)
  with sut(f'init {mode} methods'):
    yt, vt = trans.init_with_output(keys, x)
  shp = lambda v: {k: tuple(np.shape(a)) for k, a in L.flat(unfreeze(v)).items()}
  require(shp(vp) == shp(vt), lambda: f'init with @nn.{mode} helper methods '
          f'creates {sorted(shp(vt))}, the plain methods create '
          f'{sorted(shp(vp))}')
  if is_remat:
    require(tree_close(unfreeze(vp), unfreeze(vt)) and out_eq(yp, yt),
            'init values / output under @nn.remat methods differ from the '
            'plain methods')
  calls = {}
  for op in case['body']:
    if op['op'] == 'call':
      calls[op['h']] = calls.get(op['h'], 0) + 1
  # nn.jit forks every rng stream of the scope at the call site, so draws
  # made by the body after a jitted helper are "a deterministic function of
  # the call site" too, not those of the plain code
  draws = any(o['op'] == 'rng' for h in calls for o in case['helpers'][h]) \
      or (bool(calls) and any(o['op'] == 'rng' for o in case['body']))
  base = {c: v for c, v in unfreeze(vp).items() if c != 'intermediates'}
  arng = {'noise': jax.random.key(seed + 2)}
  for f in case['filters']:
    with sut('apply plain methods'):
      rp = plain.apply(base, x, mutable=f, rngs=arng)
    with sut(f'apply {mode} methods'):
      rt = trans.apply(base, x, mutable=f, rngs=arng)
      rt2 = trans.apply(base, x, mutable=f, rngs=arng)
    la = [np.asarray(a).tobytes() for a in jax.tree_util.tree_leaves(rt)]
    lb = [np.asarray(a).tobytes() for a in jax.tree_util.tree_leaves(rt2)]
    require(la == lb, f'two identical applies with @nn.{mode} methods differ')
    if draws and not is_remat:
      continue
    if f is False:
      require(out_eq(rp, rt), lambda: f'apply(mutable=False): @nn.{mode} '
              'methods give a different output than the plain methods')
    else:
      require(out_eq(rp[0], rt[0]), lambda: f'apply(mutable={f}): @nn.{mode} '
              'methods give a different output than the plain methods')
      up, ut = unfreeze(rp[1]), unfreeze(rt[1])
      require(set(up) == set(ut) and tree_close(up, ut), lambda: f'apply('
              f'mutable={f}): updates under @nn.{mode} methods '
              f'{sorted(shp(ut))} differ from the plain methods '
              f'{sorted(shp(up))}')
  creates = lambda h: any(o['op'] in ('dense', 'child')
                          for o in case['helpers'][h])
  ctx.note(labels=[mode, f'calls{sum(calls.values())}',
                   'draws' if draws else 'nodraws',
                   'setup' if setup_style else 'compact'],
           nontrivial=any(n >= 2 and creates(h) for h, n in calls.items()))


# ----------------------------------------------------------------------------
# module-valued attributes that alias each other
# ----------------------------------------------------------------------------
def _triple_call(self, x):
  return self.a(x) + 2.0 * self.b(x) + 3.0 * self.c(jnp.tanh(x))


def _make_triple(order):
  ns = {'__annotations__': {k: nn.Module for k in order},
        '__call__': nn.compact(_triple_call)}
  return type('Triple' + ''.join(order).upper(), (nn.Module,), ns)


TRIPLES = {o: _make_triple(o) for o in ('abc', 'cab', 'bca')}
TRIPLES_TR = {}


def triple_cls(order, tr):
  if tr is None:
    return TRIPLES[order]
  key = (order, tr)
  if key not in TRIPLES_TR:
    TRIPLES_TR[key] = L.transformed_class(TRIPLES[order], tr)
  return TRIPLES_TR[key]


class AliasRoot(nn.Module):
  """Owns three leaves and hands them to a (transformed) Triple according to
  `pattern`, e.g. (0, 1, 0): attributes a and c are the same module."""
  pattern: tuple = (0, 1, 2)
  order: str = 'abc'
  tr: Any = None
  dim: int = 2

  @nn.compact
  def __call__(self, x):
    leaves = [MLeaf(self.dim, name=f'leaf{i}') for i in range(3)]
    for l in leaves:
      x = x + 0.0 * l(x)      # every leaf exists whatever the pattern
    a, b, c = (leaves[i] for i in self.pattern)
    tr = self.tr
    if tr in ('map_id', 'map_id_filter'):
      tr = tr + ('_init' if self.is_initializing() else '_apply')
    return triple_cls(self.order, tr)(a=a, b=b, c=c, name='triple')(x)


def alias_case():
  pat = st.tuples(st.integers(0, 2), st.integers(0, 2), st.integers(0, 2))
  return st.fixed_dictionaries({
      'patterns': st.lists(pat, min_size=2, max_size=4),
      'order': st.sampled_from(sorted(TRIPLES)),
      'tr': st.sampled_from(L.ALL_TR), 'dim': st.integers(1, 3),
      'seed': st.integers(0, 2**16),
      'mutable': st.sampled_from([False, ['counters'], True])})


@clause('aliased_attributes', strategy=alias_case, quick=120, thorough=5000,
        quick_shards=8, thorough_shards=16, shrink=False,
        rule='a module with three module-valued attributes (declared in one '
        'of three orders) receives three root-owned leaves according to a '
        'pattern that may alias them ((0,1,0), (0,1,1), ...); a history of '
        '2-4 patterns is applied in one process on the same variables, the '
        'module plain or wrapped in nn.jit / nn.jit(variables=...) / nn.remat '
        '/ identity nn.map_variables: every output and returned collection '
        'equals the plain module with the same pattern (a changed aliasing '
        'pattern must not reuse a stale trace); non-trivial = two patterns of '
        'the history differ and one of them aliases')
def aliased_attributes(case, ctx):
  D, tr, order, seed = case['dim'], case['tr'], case['order'], case['seed']
  x = jnp.asarray(np.random.default_rng(seed).normal(size=(2, D)),
                  jnp.float32)
  key = {'params': jax.random.key(seed)}
  with sut('init'):
    v = unfreeze(AliasRoot(pattern=(0, 1, 2), order=order, tr=None,
                           dim=D).init(key, x))
  # distinct leaf parameters so that a wrong aliasing changes the output
  v['params'] = jax.tree_util.tree_map(lambda a: a, v['params'])
  pats = [tuple(p) for p in case['patterns']]
  pats = pats + [pats[0]]
  for hi, pat in enumerate(pats):
    plain = AliasRoot(pattern=pat, order=order, tr=None, dim=D)
    trans = AliasRoot(pattern=pat, order=order, tr=tr, dim=D)
    with sut('apply plain'):
      rp = plain.apply(v, x, mutable=case['mutable'])
    with sut(f'apply {tr}'):
      rt = trans.apply(v, x, mutable=case['mutable'])
    if case['mutable'] is False:
      require(out_eq(rp, rt), lambda: f'history step {hi}, pattern {pat}: '
              f'{tr}(Triple) output {np.asarray(rt)} differs from the plain '
              f'module {np.asarray(rp)} (earlier patterns {pats[:hi]})')
    else:
      require(out_eq(rp[0], rt[0]), lambda: f'history step {hi}, pattern '
              f'{pat}: {tr}(Triple) output differs from the plain module '
              f'(earlier patterns {pats[:hi]})')
      up, ut = unfreeze(rp[1]), unfreeze(rt[1])
      require(set(up) == set(ut) and tree_close(up, ut), lambda: f'history '
              f'step {hi}, pattern {pat}: updates under {tr} differ from the '
              'plain module')
  ctx.note(labels=[tr, order, f'len{len(pats)}'],
           nontrivial=len(set(pats)) >= 2 and any(len(set(p)) < 3
                                                  for p in pats))


# ----------------------------------------------------------------------------
def w_case():
  return st.tuples(
      L.case_strategy(allow=('counter', 'tanh'), max_depth=1, max_ops=3,
                      styles=('compact',)),
      st.sampled_from(L.ALL_TR), st.sampled_from(['cache', 'batch_stats']),
      filter_strategy())


@clause('writes_inside_transform', strategy=w_case, quick=120, thorough=4000,
        quick_shards=6, shrink=False,
        rule='the wrapped child writes (put_variable) to a collection; when '
        'that collection is outside `mutable` both the plain and the '
        'transformed program must raise ModifyScopeVariableError (or the '
        'documented not-found error) and otherwise both succeed with equal '
        'results; non-trivial = the write is rejected')
def writes_inside_transform(case, ctx):
  case, tr, col, f = case
  case = L.normalize_case(dict(case, shared=[]))
  child = {'style': 'compact', 'cls': 'W', 'ops': [
      {'op': 'dense', 'name': None, 'attr': 'attr'},
      {'op': 'write', 'col': col, 'name': 'wv'}]}
  def prog(t):
    op = {'op': 'sub', 'prog': child, 'name': 'wrapped', 'calls': 1,
          'attr': 'attr'}
    if t:
      op['tr'] = t
    return dict(case, prog=dict(case['prog'], ops=case['prog']['ops'] + [op]))
  mp, mt = L.make_root(prog(None)), L.make_root(prog(tr))
  x = L.make_input(case)
  key = jax.random.key(case['seed'])
  with sut('init'):
    vp = unfreeze(mp.init(key, x))
  mutable = build_filter(f)
  allowed = in_ref(f, col)
  errs = (ferrors.ModifyScopeVariableError, ferrors.ScopeCollectionNotFound,
          ferrors.ScopeVariableNotFoundError)
  base = {c: vp[c] for c in vp if c != col}   # write must create / be refused
  if allowed:
    with sut('apply (write allowed)'):
      rp = mp.apply(base, x, mutable=mutable)
      rt = mt.apply(base, x, mutable=mutable)
    require(out_eq(rp[0], rt[0]) and tree_close(rp[1], rt[1]),
            f'{tr}: permitted write gives different results than plain')
  else:
    expect_raises(errs, lambda: mp.apply(base, x, mutable=mutable),
                  'plain program writing to an immutable collection')
    expect_raises(errs, lambda: mt.apply(base, x, mutable=mutable),
                  f'write to immutable collection {col!r} inside {tr}')
  ctx.note(labels=[tr, 'allowed' if allowed else 'rejected'],
           nontrivial=not allowed)


# ----------------------------------------------------------------------------
def flow_case():
  return st.tuples(
      L.case_strategy(allow=('counter', 'stat', 'tanh'), max_depth=1,
                      max_ops=3, styles=('compact',)),
      L.prog_strategy(allow=('counter', 'stat', 'tanh'), max_depth=1,
                      max_ops=4, styles=('compact',)).map(
                          lambda p: dict(p, cls='W')),
      st.integers(0, 5), st.sampled_from(['cond', 'switch', 'while']),
      st.sampled_from([-100.0, 0.0, 100.0]), st.integers(0, 3),
      filter_strategy())


@clause('control_flow', strategy=flow_case, quick=180, thorough=8000,
        quick_shards=12, thorough_shards=16, shrink=False,
        rule='nn.cond (predicate always-true / always-false / data dependent),'
        ' nn.switch (index 0-2) and nn.while_loop (trip count 0-3, state '
        'collections carried) around a generated child at a random position '
        'of a generated program vs the same program written with a Python '
        'if / index / for loop: identical init trees and values, equal '
        'outputs and equal returned collections for a generated mutable '
        'filter; non-trivial = child has state and (trip count>=2 or a data-'
        'dependent predicate or index>0)')
def control_flow(case, ctx):
  case, child, pos, kind, thr, k, f = case
  case = L.normalize_case(dict(case, shared=[]))
  ops = list(case['prog']['ops'])
  i = pos % (len(ops) + 1)
  carry = sorted({op['col'] for op in L.collect(child, 'counter')}
                 | {op['col'] for op in L.collect(child, 'stat')})
  def prog(plain, carry_cols=carry):
    op = {'op': kind, 'prog': child, 'name': 'flow', 'plain': plain,
          'thr': thr, 'k': k, 'n': k, 'carry': list(carry_cols)}
    return dict(case, prog=dict(case['prog'], ops=ops[:i] + [op] + ops[i:]))
  mp, mt = L.make_root(prog(True)), L.make_root(prog(False))
  x = L.make_input(case)
  key = jax.random.key(case['seed'])
  with sut('init plain'):
    yp, vp = mp.init_with_output(key, x)
  with sut(f'init nn.{kind}'):
    yt, vt = mt.init_with_output(key, x)
  sp = {kk: np.shape(v) for kk, v in L.flat(vp).items()}
  st_ = {kk: np.shape(v) for kk, v in L.flat(vt).items()}
  require(sp == st_, lambda: f'nn.{kind}: init tree differs from the Python '
          f'control flow: {sorted(sp)} vs {sorted(st_)}')
  mutable = build_filter(f)
  base = unfreeze(vp)
  if kind == 'while' and not getattr(ctx, 'probe_known', False):
    # known finding C05:while_loop-carry-immutable: a carry collection that
    # is immutable in the outer apply makes nn.while_loop raise TypeError;
    # excluded by declaring only the collections mutable in this apply
    live = [c for c in carry if in_ref(f, c)]
    if live != carry:
      ctx.exclude('C05:while_loop-carry-immutable')
      mt = L.make_root(prog(False, live))
  with sut('apply plain'):
    rp = mp.apply(base, x, mutable=mutable)
  with sut(f'apply nn.{kind}'):
    rt = mt.apply(base, x, mutable=mutable)
  if mutable is False:
    require(out_eq(rp, rt, 1e-5), lambda: f'nn.{kind}: output differs from '
            'the Python control flow (mutable=False)')
  else:
    require(out_eq(rp[0], rt[0], 1e-5), lambda: f'nn.{kind}: output differs '
            f'from the Python control flow (mutable={mutable!r})')
    require(set(rp[1]) == set(rt[1]), lambda: f'nn.{kind}: returned '
            f'collections {sorted(rt[1])} vs {sorted(rp[1])}')
    require(tree_close(rp[1], rt[1], 1e-5), lambda: f'nn.{kind}: updated '
            f'collections differ from the Python control flow (mutable='
            f'{mutable!r})')
  stateful = bool(carry)
  ctx.note(labels=[kind, f'k{k}', f'thr{thr}'],
           nontrivial=stateful and (k >= 2 or (kind == 'cond' and thr == 0.0)
                                    or (kind == 'switch' and k % 3 > 0)))


class _Looper(nn.Module):
  limit: int = 3
  cond_writes: str = 'none'     # 'none' | 'carried' | 'broadcast'
  lifted: bool = True
  spelling: int = 0

  @nn.compact
  def __call__(self, x):
    self.variable('state', 'steps', lambda: jnp.zeros((), jnp.int32))
    self.variable('state', 'polls', lambda: jnp.zeros((), jnp.int32))
    self.variable('aux', 'seen', lambda: jnp.zeros((), jnp.int32))
    scale = self.param('scale', lambda rng: jnp.full((), 1.5))

    def cond_fn(mdl, c):
      if mdl.cond_writes == 'carried':
        mdl.put_variable('state', 'polls',
                         mdl.get_variable('state', 'polls') + 1)
      elif mdl.cond_writes == 'broadcast':
        mdl.put_variable('aux', 'seen', mdl.get_variable('aux', 'seen') + 1)
      return mdl.get_variable('state', 'steps') < mdl.limit

    def body_fn(mdl, c):
      mdl.put_variable('state', 'steps',
                       mdl.get_variable('state', 'steps') + 1)
      return c * scale
    if self.is_initializing():
      return x
    if self.lifted:
      carry = ['state', ('state',), 'state'][self.spelling % 3]
      return nn.while_loop(cond_fn, body_fn, self, x, carry_variables=carry,
                           broadcast_variables=['params', 'aux'])
    c = x
    while cond_fn(self, c):
      c = body_fn(self, c)
    return c


@clause('while_cond_writes',
        strategy=lambda: st.tuples(
            st.integers(0, 4), st.sampled_from(['none', 'carried',
                                                'broadcast']),
            st.sampled_from(['state', 'both', 'true']), st.integers(0, 5),
            st.integers(0, 2**16)),
        quick=60, thorough=1500, quick_shards=6, thorough_shards=16,
        shrink=False,
        rule='nn.while_loop whose condition reads the carried state and '
        'optionally writes a carried or a broadcast collection (trip count '
        '0-4, start state 0-5, mutable = the carried collection / both / '
        'True) vs the Python while loop over the same two functions: the '
        'lifted loop either raises a flax error for the write or returns the '
        'Python loop\'s output and collections -- a write is never silently '
        'dropped; non-trivial = the condition writes')
def while_cond_writes(case, ctx):
  limit, writes, mut, start, seed = case
  x = jnp.arange(3.0) + 1.0 + seed % 7
  mutable = {'state': 'state', 'both': ['state', 'aux'], 'true': True}[mut]
  with sut('init'):
    v = unfreeze(_Looper().init(jax.random.key(0), x))
  v['state']['steps'] = jnp.asarray(min(start, limit + 1), jnp.int32)
  kw = dict(limit=limit, cond_writes=writes, spelling=seed)
  plain_err = None
  try:
    yp, up = _Looper(lifted=False, **kw).apply(v, x, mutable=mutable)
  except ferrors.FlaxError as e:
    plain_err = e
  try:
    yl, ul = _Looper(lifted=True, **kw).apply(v, x, mutable=mutable)
  except ferrors.FlaxError as e:
    # a rejected write is fine (the loop cannot carry it out)
    require(writes != 'none', lambda: 'nn.while_loop with a read-only '
            f'condition raised {type(e).__name__}: {e}')
    ctx.note(labels=[writes, mut, 'raised'], nontrivial=True)
    return
  require(plain_err is None, lambda: 'nn.while_loop accepted what the Python '
          f'loop rejects with {type(plain_err).__name__}')
  require(out_eq(yp, yl, 1e-6), lambda: f'nn.while_loop output {yl} differs '
          f'from the Python loop {yp}')
  require(set(up) == set(ul) and tree_close(up, ul, 0), lambda: 'nn.while_loop'
          f' (condition writes: {writes}) returned collections '
          f'{jax.tree_util.tree_map(np.asarray, unfreeze(ul))}, the Python '
          f'loop {jax.tree_util.tree_map(np.asarray, unfreeze(up))}: a write '
          'inside cond_fn was dropped without an error')
  ctx.note(labels=[writes, mut, 'equal'], nontrivial=writes != 'none')


KNOWN_CASE = [
    {'dim': 1, 'prog': {'style': 'compact', 'cls': 'A', 'ops': [{'op': 'tanh'}]},
     'shared': [], 'batch': [2], 'xseed': 1, 'seed': 0},
    {'style': 'compact', 'cls': 'W',
     'ops': [{'op': 'counter', 'col': 'counters', 'name': 'c'}]},
    0, 'while', 0.0, 2, {'t': 'false'}]


@clause('known_probes', enum=lambda ctx: [KNOWN_CASE], quick_shards=1,
        thorough_shards=1,
        rule='re-executes the recorded reproduction of the known finding '
        '(nn.while_loop with a carry collection that is immutable in apply)')
def known_probes(case, ctx):
  ctx.probe_known = True
  try:
    control_flow(case, ctx)
  except Violation as v:
    raise Violation(str(v), key='C05:while_loop-carry-immutable') from None


# ----------------------------------------------------------------------------
# nn.remat / nn.checkpoint with static_argnums: Python-valued arguments
import functools as _functools
import itertools as _itertools

_SB_CACHE = {}


def _sblock(layout, form, static):
  """A module whose __call__ takes (x, mode, flip) in the order `layout`;
  `mode` (str) and `flip` (bool) are used as Python values."""
  key = (layout, form, static)
  if key in _SB_CACHE:
    return _SB_CACHE[key]

  def body(self, **kw):
    h = nn.Dense(3, name='dense')(kw['x'])
    if kw['mode'] == 'tanh':
      h = jnp.tanh(h)
    elif kw['mode'] == 'relu':
      h = nn.relu(h) + 0.1 * h
    c = self.variable('counters', 'n', lambda: jnp.zeros((), jnp.int32))
    if self.is_mutable_collection('counters'):
      c.value = c.value + 1
    if kw['flip']:
      h = -h
    return h * 2.0

  a, b, c_ = layout

  def call(self, p, q, r):
    return body(self, **{a: p, b: q, c_: r})

  if form == 'decorator':
    call = _functools.partial(nn.remat, static_argnums=static)(
        nn.compact(call))
  else:
    call = nn.compact(call)
  cls = type('SBlock', (nn.Module,), {'__call__': call})
  if form == 'class':
    cls = nn.remat(cls, static_argnums=static)
  elif form == 'checkpoint':
    cls = nn.checkpoint(cls, static_argnums=static)
  _SB_CACHE[key] = cls
  return cls


@clause('remat_static_args',
        strategy=lambda: st.fixed_dictionaries({
            'layout': st.permutations(['x', 'mode', 'flip']).map(tuple),
            'form': st.sampled_from(['class', 'decorator', 'checkpoint']),
            'order': st.sampled_from(['asc', 'desc', 'int-if-single']),
            'mode_static': st.just(True),
            'mode': st.sampled_from(['tanh', 'relu', 'id']),
            'flip': st.booleans(), 'seed': st.integers(0, 2**16),
            'mutable': st.booleans()}),
        quick=120, thorough=3000, quick_shards=6, thorough_shards=16,
        shrink=False,
        rule='a module whose __call__ takes an array, a str and a bool in any '
        'of the 6 argument orders (the Python-valued ones declared in '
        'static_argnums, self counted as 0, listed ascending or descending) '
        'under nn.remat (class or method decorator) / nn.checkpoint: init '
        'tree, output, updated counter and gradients w.r.t. params and input '
        'equal the plain module; non-trivial = a static argument comes first')
def remat_static_args(case, ctx):
  layout = tuple(case['layout'])
  static = tuple(i + 1 for i, n in enumerate(layout) if n in ('mode', 'flip'))
  if case['order'] == 'desc':
    static = static[::-1]
  form = case['form']
  plain = _sblock(layout, 'plain', None)()
  with sut(f'nn.remat ({form}, static_argnums={static})'):
    wrapped = _sblock(layout, form, static)()
  rng = np.random.default_rng(case['seed'])
  x = jnp.asarray(rng.normal(size=(2, 3)), jnp.float32)
  vals = {'x': x, 'mode': case['mode'], 'flip': case['flip']}
  args = tuple(vals[n] for n in layout)
  key = jax.random.key(case['seed'])
  with sut('plain init'):
    Vp = unfreeze(plain.init(key, *args))
  with sut(f'remat init (static_argnums={static}, layout={layout})'):
    Vw = unfreeze(wrapped.init(key, *args))
  require(tree_close(Vp, Vw, 0), lambda: 'init under nn.remat differs from the '
          f'plain module: {jax.tree_util.tree_map(np.shape, Vw)} vs '
          f'{jax.tree_util.tree_map(np.shape, Vp)}')
  mut = ['counters'] if case['mutable'] else False

  def loss(mod, params, xx):
    a = tuple(xx if n == 'x' else vals[n] for n in layout)
    r = mod.apply({'params': params, 'counters': Vp['counters']}, *a,
                  mutable=mut)
    y, upd = r if mut else (r, {})
    return jnp.sum(y * y), (y, upd)

  with sut('plain apply/grad'):
    (lp, (yp, up)), gp = jax.value_and_grad(
        lambda p, xx: loss(plain, p, xx), argnums=(0, 1), has_aux=True)(
            Vp['params'], x)
  with sut(f'remat apply/grad (static_argnums={static}, layout={layout}, '
           f'form={form})'):
    (lw, (yw, uw)), gw = jax.value_and_grad(
        lambda p, xx: loss(wrapped, p, xx), argnums=(0, 1), has_aux=True)(
            Vp['params'], x)
  require(out_eq(yp, yw, 1e-6), 'output under nn.remat differs')
  require(tree_close(unfreeze(up), unfreeze(uw), 0), 'counter under nn.remat '
          'differs')
  require(tree_close({'p': gp[0], 'x': {'x': gp[1]}},
                     {'p': gw[0], 'x': {'x': gw[1]}}, 1e-5),
          'gradients under nn.remat differ')
  ctx.note(labels=[form, 'layout-' + ''.join(n[0] for n in layout),
                   case['order']],
           nontrivial=layout[0] != 'x')


# ----------------------------------------------------------------------------
# a jitted module whose (static) attributes differ must not reuse the trace
# of another instance
def _jattr_body(self, x):
  y = jnp.roll(x, self.k, axis=-1) * (self.k + 3.0) + sum(self.axes)
  if self.flag:
    y = -y
  if self.mode == 't':
    y = jnp.tanh(y)
  return y + jnp.sum(x, axis=self.k)[..., None] if x.ndim >= 2 else y


class JAttrPlain(nn.Module):
  k: int = 0
  axes: tuple = ()
  flag: bool = False
  mode: str = 'id'

  @nn.compact
  def __call__(self, x):
    return _jattr_body(self, x)


class JAttrJit(nn.Module):
  k: int = 0
  axes: tuple = ()
  flag: bool = False
  mode: str = 'id'

  @nn.jit
  @nn.compact
  def __call__(self, x):
    return _jattr_body(self, x)


JAttrCls = nn.jit(JAttrPlain)


class JAttrParent(nn.Module):
  configs: tuple = ()
  kind: str = 'plain'

  @nn.compact
  def __call__(self, x):
    cls = {'plain': JAttrPlain, 'decorator': JAttrJit, 'class': JAttrCls}[
        self.kind]
    return [cls(k=k, axes=tuple(ax), flag=fl, mode=mo)(x)
            for k, ax, fl, mo in self.configs]


@clause('jit_attribute_sensitivity',
        strategy=lambda: st.fixed_dictionaries({
            'histories': st.lists(st.lists(st.tuples(
                st.sampled_from([-2, -1, 0, 1]),
                st.lists(st.sampled_from([-2, -1, 0, 1, 2]), max_size=2).map(
                    tuple),
                st.booleans(), st.sampled_from(['id', 't'])), min_size=1,
                max_size=4).map(tuple), min_size=1, max_size=3),
            'kind': st.sampled_from(['decorator', 'class']),
            'seed': st.integers(0, 2**16)}),
        quick=150, thorough=5000, quick_shards=6, thorough_shards=16,
        shrink=False,
        rule='1-3 applies, each creating 1-4 instances of one jitted module '
        'class (nn.jit on the method or on the class) that differ only in '
        'static attributes (a small int incl. -1 / -2 used as shift and axis, '
        'a tuple of ints, a bool, a str): every instance returns what the '
        'unjitted class returns for its own attributes; non-trivial = two '
        'instances differ in one attribute only')
def jit_attribute_sensitivity(case, ctx):
  rng = np.random.default_rng(case['seed'])
  x = jnp.asarray(rng.normal(size=(2, 2)), jnp.float32)
  seen = []
  for configs in case['histories']:
    configs = tuple((k, tuple(ax), fl, mo) for k, ax, fl, mo in configs)
    with sut('plain apply'):
      ref = JAttrParent(configs=configs, kind='plain').apply({}, x)
    with sut(f'jitted apply ({case["kind"]})'):
      got = JAttrParent(configs=configs, kind=case['kind']).apply({}, x)
    for c, a, b in zip(configs, got, ref):
      require(np.shape(a) == np.shape(b) and np.allclose(
          np.asarray(a), np.asarray(b), rtol=1e-6, atol=1e-6),
              lambda: f'jitted module with attributes {c} returned '
              f'{np.asarray(a).tolist()}, the unjitted class returns '
              f'{np.asarray(b).tolist()} (instances seen before: {seen})')
      seen.append(c)
  allc = [c for h in case['histories'] for c in h]
  nt = any(sum(1 for u, v in zip(a, b) if u != v) == 1
           for a in allc for b in allc)
  ctx.note(labels=[case['kind'], f'applies{len(case["histories"])}'],
           nontrivial=nt)
