"""C07 — lifted vjp / jvp / grad / value_and_grad / custom_vjp equal JAX
autodiff of the pure apply function."""
from __future__ import annotations

from typing import Any

import numpy as np
from hypothesis import strategies as st

from harness.core import begin, clause, Violation, sut, require, expect_raises
from harness import linen_dsl as L
from props.c06 import fix_cols

import jax
import jax.numpy as jnp
import flax.linen as nn
from flax.core import unfreeze

begin('C07')

ASSUMPTIONS = [
    'the reference is jax.vjp / jax.jvp / jax.grad applied to the pure '
    'function (selected variables, inputs) -> child.apply({**other, '
    '**selected}, inputs) of the same (unlifted) child module',
    'float32; compared with rtol=1e-4, atol=1e-5 (both sides run the same '
    'XLA ops, only the surrounding tracing differs)',
]

TOL = dict(rtol=1e-4, atol=1e-5)


def close(a, b):
  la, lb = jax.tree_util.tree_leaves(a), jax.tree_util.tree_leaves(b)
  if len(la) != len(lb):
    return False
  return all(np.shape(x) == np.shape(y) and np.allclose(
      np.asarray(x), np.asarray(y), **TOL) for x, y in zip(la, lb))


def same_struct(a, b):
  return jax.tree_util.tree_structure(a) == jax.tree_util.tree_structure(b)


def combine(prims):
  """Deterministic smooth combination of all primal leaves -> one array."""
  leaves = jax.tree_util.tree_leaves(prims)
  h = 0.0
  for i, l in enumerate(leaves):
    h = h + (i + 1) * 0.5 * l
  return h


class Outer(nn.Module):
  spec: Any = None
  dim: int = 2
  mode: str = 'vjp'
  sel: tuple = ('params',)
  has_aux: bool = False
  out_dtype: str = 'float32'
  # the variables / rngs lifting filters spelled out (every collection and
  # stream a program can use is named) instead of the default True
  explicit_filters: bool = False

  @nn.compact
  def __call__(self, prims, ct, vtan=None):
    fk = {}
    if self.explicit_filters:
      fk = dict(rngs=['params', 'dropout', 'noise'],
                variables=['params', 'batch_stats', 'counters'])
    child = L.make_module(L.thaw(self.spec), self.dim, name='child')

    def fn(mdl, *ps):
      y = mdl(combine(ps))
      if self.mode in ('grad', 'value_and_grad'):
        y = jnp.sum(y * y)
      # the function's output dtype need not be float32
      y = y.astype(self.out_dtype)
      if self.has_aux:
        return y, {'aux': jnp.sum(combine(ps)) * 3.0}
      return y

    if self.mode == 'vjp':
      out = nn.vjp(fn, child, *prims, has_aux=self.has_aux,
                   vjp_variables=list(self.sel), **fk)
      y, bwd = out[0], out[1]
      grads = bwd(ct)
      return {'y': y, 'var_grads': grads[0], 'in_grads': grads[1:],
              'aux': out[2] if self.has_aux else None}
    if self.mode == 'jvp':
      y, y_t = nn.jvp(fn, child, tuple(prims), tuple(ct),
                      variable_tangents=vtan, **fk)
      return {'y': y, 'y_t': y_t}
    if self.mode == 'grad':
      out = nn.grad(fn, child, *prims, has_aux=self.has_aux, **fk)
      g, aux = (out if self.has_aux else (out, None))
      return {'in_grads': g, 'aux': aux}
    out = nn.value_and_grad(fn, child, *prims, has_aux=self.has_aux, **fk)
    if self.has_aux:
      (y, aux), g = out
    else:
      (y, g), aux = out, None
    return {'y': y, 'in_grads': g, 'aux': aux}


def smooth_prog():
  return L.prog_strategy(allow=('counter', 'stat', 'tanh'), max_depth=1,
                         max_ops=4, styles=('compact',)).map(fix_cols)


def prim_strategy():
  # 1-3 primal inputs, each an array or a small pytree of arrays
  kind = st.sampled_from(['arr', 'dict', 'tuple'])
  return st.lists(kind, min_size=1, max_size=3)


def make_prims(kinds, D, batch, rng):
  def arr():
    return jnp.asarray(rng.normal(size=tuple(batch) + (D,)), jnp.float32)
  out = []
  for k in kinds:
    if k == 'arr':
      out.append(arr())
    elif k == 'dict':
      out.append({'a': arr(), 'b': arr()})
    else:
      out.append((arr(), arr()))
  return tuple(out)


def c07_case():
  return st.fixed_dictionaries({
      'prog': smooth_prog(), 'dim': st.integers(1, 3),
      'batch': st.lists(st.integers(1, 3), max_size=1),
      'prims': prim_strategy(),
      'mode': st.sampled_from(['vjp', 'vjp', 'jvp', 'grad', 'value_and_grad']),
      'sel': st.sampled_from([['params'], ['batch_stats'],
                              ['params', 'batch_stats'], []]),
      'has_aux': st.booleans(),
      'mutable': st.lists(st.sampled_from(['counters', 'batch_stats']),
                          max_size=2, unique=True),
      'empty_tangent': st.booleans(),
      'out_dtype': st.sampled_from(['float32', 'float32', 'bfloat16',
                                    'float16']),
      'explicit_filters': st.booleans(),
      'seed': st.integers(0, 2**16),
  })


@clause('autodiff_vs_jax', strategy=c07_case, quick=240, thorough=8000,
        quick_shards=16, thorough_shards=16, shrink=False,
        rule='generated smooth child programs (Dense/param/tanh + counter and '
        'running-stat state) wrapped in a module calling nn.vjp / nn.jvp / '
        'nn.grad / nn.value_and_grad x differentiated collections (params, '
        'batch_stats, both, none) x has_aux x 1-3 primal inputs (arrays, '
        'dicts, tuples) x output dtype float32/bfloat16/float16 x random '
        'cotangents/tangents x outer mutable filter x variables / rngs lifting '
        'filters left at their default or spelled out as complete lists; '
        'primal output, cotangent/tangent of every selected collection and '
        'every input equal jax.vjp/jvp/grad of the pure apply function, '
        'unselected collections are absent, forward state updates are '
        'published exactly once; a program using nn.vjp differentiates (jax.'
        'grad w.r.t. every float collection) like the same program written '
        'with jax.vjp; non-trivial = >=2 collections with different '
        'selection status, or pytree primals, or has_aux')
def autodiff_vs_jax(case, ctx):
  prog, D = case['prog'], case['dim']
  rng = np.random.default_rng(case['seed'])
  prims = make_prims(case['prims'], D, case['batch'], rng)
  spec = L.freeze_json(prog)
  child_cols = set()
  if L.uses(prog, ('dense', 'param')):
    child_cols.add('params')
  if L.uses(prog, ('stat',)):
    child_cols.add('batch_stats')
  if L.uses(prog, ('counter',)):
    child_cols.add('counters')
  sel = [c for c in case['sel'] if c in child_cols]
  mode = case['mode']
  case = dict(case, has_aux=case['has_aux'] and mode != 'jvp')
  odt = case.get('out_dtype', 'float32')
  outer = Outer(spec=spec, dim=D, mode=mode, sel=tuple(sel),
                has_aux=case['has_aux'], out_dtype=odt,
                explicit_filters=case.get('explicit_filters', False))
  ctol = TOL if odt == 'float32' else dict(rtol=3e-2, atol=3e-2)

  def close(a, b):
    la, lb = jax.tree_util.tree_leaves(a), jax.tree_util.tree_leaves(b)
    if len(la) != len(lb):
      return False
    return all(np.shape(x) == np.shape(y) and jnp.asarray(x).dtype ==
               jnp.asarray(y).dtype and np.allclose(
                   np.asarray(x, np.float64), np.asarray(y, np.float64),
                   equal_nan=True, **ctol) for x, y in zip(la, lb))
  child = L.make_module(prog, D, parent=None)
  h0 = combine(prims)
  key = jax.random.key(case['seed'])
  with sut('child init'):
    cv = unfreeze(child.init(key, h0))
  V = {c: {'child': cv[c]} for c in cv}
  mutable = [c for c in case['mutable'] if c in child_cols]
  y_shape = jax.eval_shape(lambda: child.apply(cv, h0)).shape
  if mode == 'vjp':
    ct = jnp.asarray(rng.normal(size=y_shape), odt)
    vtan = None
  elif mode == 'jvp':
    ct = jax.tree_util.tree_map(
        lambda a: jnp.asarray(rng.normal(size=a.shape), jnp.float32), prims)
    tan_cols = [c for c in sel]
    vtan = {c: jax.tree_util.tree_map(
        lambda a: jnp.asarray(rng.normal(size=np.shape(a)), jnp.float32),
        cv[c]) for c in tan_cols}
    if case['empty_tangent']:
      vtan['empty_collection'] = {}
  else:
    ct, vtan = None, None

  def run_pure(vars_sel, *ps):
    full = dict({c: cv[c] for c in cv if c not in vars_sel}, **vars_sel)
    r = child.apply(full, combine(ps), mutable=mutable if mutable else False)
    y, upd = (r if mutable else (r, {}))
    if mode in ('grad', 'value_and_grad'):
      y = jnp.sum(y * y)
    return y.astype(odt), upd

  with sut(f'outer apply ({mode})'):
    r = outer.apply(V, prims, ct, vtan, mutable=mutable if mutable else False)
  res, upd = (r if mutable else (r, {}))
  upd = unfreeze(upd) if upd else {}
  vars_sel = {c: cv[c] for c in sel}
  # ---- reference
  if mode == 'vjp':
    y_ref, bwd, upd_ref = jax.vjp(run_pure, vars_sel, *prims, has_aux=True)
    g_ref = bwd(ct)
    require(close(res['y'], y_ref), 'nn.vjp primal output differs from '
            'module.apply')
    vg = unfreeze(res['var_grads']) if hasattr(res['var_grads'], 'keys') \
        else res['var_grads']
    got_cols = set(vg.keys()) if hasattr(vg, 'keys') else set()
    require(got_cols == set(sel), lambda: f'cotangent returned for '
            f'collections {sorted(got_cols)}, selected {sorted(sel)}')
    for c in sel:
      require(same_struct(vg[c], g_ref[0][c]) and close(vg[c], g_ref[0][c]),
              lambda: f'cotangent of collection {c} differs from jax.vjp of '
              'the pure apply function')
    require(len(res['in_grads']) == len(prims), 'one cotangent per input')
    for i, (g, gr) in enumerate(zip(res['in_grads'], g_ref[1:])):
      require(same_struct(g, gr) and close(g, gr), lambda: f'cotangent of '
              f'input {i} differs from jax.vjp')
    if not mutable and odt == 'float32':
      # the program that *uses* nn.vjp is itself differentiable like the
      # pure formulation: d/d(all float variables) of sum(primal) +
      # sum(cotangents), selected collections or not
      fcols = [c for c in cv if c != 'counters']
      def total(tree):
        return sum(jnp.sum(l) for l in jax.tree_util.tree_leaves(tree)
                   if jnp.issubdtype(jnp.asarray(l).dtype, jnp.floating))
      def s_lifted(fv):
        full = dict({c: {'child': cv[c]} for c in cv if c not in fv},
                    **{c: {'child': fv[c]} for c in fv})
        r_ = outer.apply(full, prims, ct, None)
        return total((r_['y'], r_['var_grads'], r_['in_grads']))
      def s_pure(fv):
        full = dict({c: cv[c] for c in cv if c not in fv}, **fv)
        def f_(vs, *ps):
          allv = dict({c: full[c] for c in full if c not in vs}, **vs)
          return child.apply(allv, combine(ps)).astype(odt)
        y_, bwd_ = jax.vjp(f_, {c: full[c] for c in sel}, *prims)
        return total((y_, bwd_(ct)))
      fv0 = {c: cv[c] for c in fcols}
      if fv0:
        with sut('jax.grad through a program using nn.vjp'):
          g2 = jax.grad(s_lifted)(fv0)
        g2_ref = jax.grad(s_pure)(fv0)
        require(same_struct(g2, g2_ref) and close(g2, g2_ref), lambda: 
                'jax.grad of a program that uses nn.vjp(vjp_variables='
                f'{sorted(sel)}) w.r.t. collections {sorted(fv0)} differs '
                'from jax.grad of the same program written with jax.vjp')
        ctx.note(labels=['second-order'])
  elif mode == 'jvp':
    vt_ref = {c: vtan[c] for c in sel}
    out_p, out_t = jax.jvp(lambda vs, *ps: run_pure(vs, *ps)[0],
                           (vars_sel, *prims), (vt_ref, *ct))
    require(close(res['y'], out_p), 'nn.jvp primal output differs')
    require(close(res['y_t'], out_t), lambda: 'nn.jvp tangent differs from '
            f'jax.jvp (variable tangents for {sorted(sel)})')
    _, upd_ref = run_pure(vars_sel, *prims)
  else:
    def scalar(*ps):
      y, u = run_pure(vars_sel, *ps)
      return y, u
    (y_ref, upd_ref), g_ref = jax.value_and_grad(
        scalar, argnums=tuple(range(len(prims))), has_aux=True)(*prims)
    if mode == 'value_and_grad':
      require(close(res['y'], y_ref), 'nn.value_and_grad value differs')
    g = res['in_grads']
    # nn.grad returns a bare gradient for a single input
    if len(prims) == 1 and not isinstance(g, tuple):
      g = (g,)
    if len(prims) == 1 and isinstance(g, tuple) and len(g) != 1:
      g = (g,)
    require(same_struct(tuple(g), tuple(g_ref)) and close(g, g_ref),
            lambda: f'{mode}: input gradients differ from jax.grad of the '
            'pure apply function')
  if case['has_aux'] and mode != 'jvp':
    require(close(res['aux'], {'aux': jnp.sum(combine(prims)) * 3.0}),
            'aux output differs')
  # ---- forward-pass updates published exactly once
  require(set(upd) == set(mutable), lambda: f'returned collections '
          f'{sorted(upd)} != mutable {sorted(mutable)}')
  for c in mutable:
    require(close(upd[c]['child'], unfreeze(upd_ref)[c]), lambda: f'collection '
            f'{c} after the lifted {mode} differs from one forward pass '
            '(published once)')
  status = {c: (c in sel) for c in child_cols if c != 'counters'}
  ctx.note(labels=[mode, 'aux' if case['has_aux'] else 'noaux', odt,
                   'explicit-filters' if case.get('explicit_filters')
                   else 'default-filters',
                   f'sel:{",".join(sel) or "none"}', f'prims{len(prims)}'],
           nontrivial=len(set(status.values())) >= 2 or any(
               k != 'arr' for k in case['prims']) or case['has_aux'])


# ----------------------------------------------------------------------------
class CustomVJPOuter(nn.Module):
  spec: Any = None
  dim: int = 2
  use_custom: bool = True
  # the primal output of forward_fn is distinguishable from fn's: it is only
  # to be used when a vjp is computed
  fwd_shift: float = 0.0

  @nn.compact
  def __call__(self, x):
    child = L.make_module(L.thaw(self.spec), self.dim, name='child')

    def f(mdl, xx):
      return mdl(xx)

    def fwd(mdl, xx):
      y, vjp_fn = nn.vjp(f, mdl, xx)
      return y + self.fwd_shift, vjp_fn

    def bwd(vjp_fn, y_t):
      params_t, *inputs_t = vjp_fn(y_t)
      params_t = jax.tree_util.tree_map(jnp.sign, params_t)
      # the rule also rewrites the input cotangent, so that it is visible
      # for modules without parameters too
      inputs_t = jax.tree_util.tree_map(lambda t: -0.5 * t, inputs_t)
      return (params_t, *inputs_t)

    if self.use_custom:
      g = nn.custom_vjp(f, forward_fn=fwd, backward_fn=bwd)
      return jnp.sum(g(child, x))
    return jnp.sum(f(child, x))


@clause('custom_vjp',
        strategy=lambda: st.tuples(
            L.prog_strategy(allow=('tanh', 'counter', 'stat'), max_depth=1,
                            max_ops=4, styles=('compact',)).map(fix_cols),
            st.integers(1, 3), st.integers(0, 2**16)),
        quick=100, thorough=3000, quick_shards=10, shrink=False,
        rule='generated smooth child programs under nn.custom_vjp with a '
        'backward rule that takes the sign of the parameter cotangent and a '
        'forward_fn whose primal output is shifted by 100 in half of the '
        'cases: the forward value (eager and jitted) equals the plain '
        'function, jax.grad of the outer apply '
        'w.r.t. params equals sign(plain gradient) and the input gradient is '
        '-0.5 x the plain one (also for parameter-free modules); counters / running statistics updated by the forward '
        'pass are published exactly once while differentiating; non-trivial = child has >=2 parameters')
def custom_vjp(case, ctx):
  prog, D, seed = case
  if not L.uses(prog, ('dense', 'param')) and seed % 3:
    # (every third such program stays parameter-free: the module owns no
    # variable in the differentiated collection)
    prog = dict(prog, ops=list(prog['ops']) + [
        {'op': 'dense', 'name': None, 'attr': 'attr'}])
  spec = L.freeze_json(prog)
  rng = np.random.default_rng(seed)
  x = jnp.asarray(rng.normal(size=(2, D)), jnp.float32)
  shift = 100.0 if seed % 2 else 0.0
  m_c = CustomVJPOuter(spec=spec, dim=D, use_custom=True, fwd_shift=shift)
  m_p = CustomVJPOuter(spec=spec, dim=D, use_custom=False)
  key = jax.random.key(seed)
  with sut('init'):
    V = m_p.init(key, x)
  with sut('forward'):
    y_c = m_c.apply(V, x)
    y_p = m_p.apply(V, x)
  require(close(y_c, y_p), lambda: 'forward value under custom_vjp '
          f'({np.asarray(y_c)}) differs from the original function '
          f'({np.asarray(y_p)}); forward_fn shifts its primal output by '
          f'{shift}')
  with sut('forward under jit'):
    y_j = jax.jit(lambda v, xx: m_c.apply(v, xx))(V, x)
  require(close(y_j, y_p), 'jitted forward value under custom_vjp differs '
          'from the original function')
  V = unfreeze(V)
  state_cols = sorted(c for c in V if c != 'params')
  P, S = {'params': V.get('params', {})}, {c: V[c] for c in state_cols}
  def run(m, p, xx):
    # the forward pass may update counters / running statistics
    if state_cols:
      y, upd = m.apply({**p, **S}, xx, mutable=state_cols)
      return y, upd
    return m.apply({**p, **S}, xx), {}
  with sut('grad'):
    (gc_v, gc_x), uc = jax.grad(lambda p, xx: run(m_c, p, xx), argnums=(0, 1),
                                has_aux=True)(P, x)
    (gp_v, gp_x), up = jax.grad(lambda p, xx: run(m_p, p, xx), argnums=(0, 1),
                                has_aux=True)(P, x)
  exp = jax.tree_util.tree_map(jnp.sign, gp_v)
  require(close(gc_v, exp), 'parameter gradient is not the custom backward '
          'rule (sign of the plain gradient)')
  require(close(gc_x, jax.tree_util.tree_map(lambda t: -0.5 * t, gp_x)),
          'input gradient under custom_vjp is not the custom backward rule '
          '(-0.5 x the plain input gradient)')
  if state_cols:
    _, u_fwd = run(m_p, P, x)
    require(close(unfreeze(uc), unfreeze(u_fwd)) and close(
        unfreeze(up), unfreeze(u_fwd)), lambda: 'state updates published '
            'while differentiating through nn.custom_vjp differ from one '
            f'forward pass: {jax.tree_util.tree_map(np.asarray, unfreeze(uc))}'
            f' vs {jax.tree_util.tree_map(np.asarray, unfreeze(u_fwd))}')
  nparams = len(jax.tree_util.tree_leaves(V))
  ctx.note(labels=['stateful' if state_cols else 'stateless',
                   'fwd-shifted' if shift else 'fwd-same'],
           nontrivial=nparams >= 2)


# ----------------------------------------------------------------------------
# differentiation over several scopes: nn.vjp(multi_scope=True) on a module
# that holds modules handed in from outside, lift.vjp over a tuple of scopes
class MSLin(nn.Module):
  c: float = 0.1
  dout: int = 2

  @nn.compact
  def __call__(self, x):
    def init(k, s):
      return jnp.full(s, self.c) + 0.01 * jnp.arange(
          int(np.prod(s)), dtype=jnp.float32).reshape(s)
    w = self.param('w', init, (x.shape[-1], self.dout))
    return x @ w


class MSNest(nn.Module):
  depth: int = 1
  c: float = 0.1
  dout: int = 2

  def setup(self):
    if self.depth <= 1:
      self.leaf = MSLin(self.c, self.dout)
    else:
      self.sub = MSNest(self.depth - 1, self.c, self.dout)

  def leaf_module(self):
    return self.leaf if self.depth <= 1 else self.sub.leaf_module()


def _ms_prog(mdl, x):
  terms = [jnp.tanh(m(x)) * (j + 1) for j, m in enumerate(mdl.shared)]
  # (no outside module: the module's own scope is the only one lifted)
  h = sum(terms) if terms else jnp.tanh(jnp.sum(x)) * jnp.ones((3,))
  return MSLin(0.3, 2, name='out')(h)


class MSHead(nn.Module):
  shared: tuple = ()
  lifted: bool = False

  @nn.compact
  def __call__(self, x, ct):
    if not self.lifted:
      return _ms_prog(self, x)
    y, bwd = nn.vjp(_ms_prog, self, x, multi_scope=True)
    var_cts, x_ct = bwd(ct)
    return y, var_cts, x_ct


class MSTop(nn.Module):
  depths: tuple = (1,)
  lifted: bool = False

  def setup(self):
    mods = []
    for j, d in enumerate(self.depths):
      if d == 0:
        m = MSLin(0.1 * (j + 1), 3)
        setattr(self, f's{j}', m)
      else:
        n = MSNest(d, 0.1 * (j + 1), 3)
        setattr(self, f'n{j}', n)
        m = n.leaf_module()
      mods.append(m)
    self.head = MSHead(shared=tuple(mods), lifted=self.lifted)

  def __call__(self, x, ct):
    return self.head(x, ct)


def _ms_path(j, d):
  return [f's{j}'] if d == 0 else [f'n{j}'] + ['sub'] * (d - 1) + ['leaf']


@clause('multi_scope_vjp',
        strategy=lambda: st.fixed_dictionaries({
            'depths': st.lists(st.integers(0, 3), min_size=0, max_size=3),
            'core_depths': st.lists(st.integers(1, 3), min_size=1, max_size=3),
            'din': st.integers(1, 4), 'seed': st.integers(0, 2**16)}),
        quick=60, thorough=2000, quick_shards=6, thorough_shards=16,
        shrink=False,
        rule='(linen) a module differentiating with nn.vjp(multi_scope=True) '
        'a program that uses 0-3 modules handed in from outside, each living '
        '0-3 levels deep elsewhere in the module tree: primal output and input '
        'cotangent equal jax.vjp of the pure apply; the returned per-scope '
        'cotangents are, as a collection, the jax.vjp cotangents of the '
        'outside modules\' and the module\'s own params, and their positions '
        'do not depend on how deep the outside modules live (same list as '
        'the all-top-level placement); (core) lift.vjp over a tuple of 1-3 '
        'scopes at depths 1-3 returns cotangent i for scope i of the tuple; '
        'non-trivial = >=2 outside modules at different depths')
def multi_scope_vjp(case, ctx):
  depths = tuple(case['depths'])
  rng = np.random.default_rng(case['seed'])
  x = jnp.asarray(rng.normal(size=(case['din'],)), jnp.float32)
  ct = jnp.asarray(rng.normal(size=(2,)), jnp.float32)

  def run(dp):
    with sut('init'):
      V = unfreeze(MSTop(dp, False).init(jax.random.key(0), x, ct))
    with sut('nn.vjp(multi_scope=True)'):
      y, cts, x_ct = MSTop(dp, True).apply(V, x, ct)
    y_ref, pull = jax.vjp(lambda v, xx: MSTop(dp, False).apply(v, xx, ct),
                          V, x)
    v_ref, x_ref = pull(ct)
    require(close(y, y_ref), 'multi_scope vjp: primal output differs')
    require(close(x_ct, x_ref), 'multi_scope vjp: input cotangent differs')
    want = []
    for j, d in enumerate(dp):
      node = v_ref['params']
      for k in _ms_path(j, d):
        node = node[k]
      want.append({'params': node})
    want.append({'params': v_ref['params']['head']})
    cts = [unfreeze(c) for c in cts]
    require(len(cts) == len(want), lambda: f'{len(cts)} cotangent trees for '
            f'{len(want)} scopes')
    left = list(range(len(want)))
    for c in cts:
      hit = next((i for i in left if same_struct(c, want[i])
                  and close(c, want[i])), None)
      require(hit is not None, lambda: 'a returned per-scope cotangent '
              f'{jax.tree_util.tree_map(np.shape, c)} is not the jax.vjp '
              'cotangent of any of the differentiated scopes')
      left.remove(hit)
    return cts

  got = run(depths)
  flat = run(tuple(0 for _ in depths))
  for i, (a, b) in enumerate(zip(got, flat)):
    require(same_struct(a, b) and close(a, b), lambda: f'position {i} of the '
            'returned cotangents holds a different scope\'s cotangent when '
            f'the outside modules live at depths {depths} than when they are '
            'top-level: '
            f'{jax.tree_util.tree_map(np.shape, a)} vs '
            f'{jax.tree_util.tree_map(np.shape, b)}')
  # ---- functional core: explicit tuple of scopes
  from flax.core import lift, init as core_init, apply as core_apply
  cd = list(case['core_depths'])
  ones = nn.initializers.ones_init()

  def body(scopes, xx):
    return sum((i + 1.0) * s.param('w', ones, ()) * jnp.sum(xx) ** (i + 1)
               for i, s in enumerate(scopes))

  def program(scope, xx):
    scopes = []
    for i, d in enumerate(cd):
      s = scope
      for lvl in range(d):
        s = s.push(f'b{i}_{lvl}')
      scopes.append(s)
    y, bwd = lift.vjp(body, tuple(scopes), xx)
    v_cts, x_ct = bwd(jnp.ones_like(y))
    return y, v_cts, x_ct

  with sut('lift.vjp over a tuple of scopes'):
    _, V = core_init(program)(jax.random.key(0), x)
    V = jax.tree_util.tree_map(lambda v: v * 2.0, unfreeze(V))
    y, v_cts, x_ct = core_apply(program)(V, x)
  sx = float(jnp.sum(x))
  require(isinstance(v_cts, (tuple, list)) and len(v_cts) == len(cd), lambda:
          f'lift.vjp over a tuple of {len(cd)} scopes returned variable '
          f'cotangents of structure {jax.tree_util.tree_structure(v_cts)}: '
          'expected one cotangent tree per scope of the tuple')
  for i in range(len(cd)):
    exp = (i + 1.0) * sx ** (i + 1)
    got_i = float(unfreeze(v_cts[i])['params']['w'])
    require(np.isclose(got_i, exp, rtol=1e-4, atol=1e-5), lambda: 'lift.vjp '
            f'over scopes at depths {cd}: cotangent {i} is {got_i}, the '
            f'derivative w.r.t. the param of scope {i} is {exp}')
  require(np.isclose(float(y), sum((i + 1.0) * 2.0 * sx ** (i + 1)
                                   for i in range(len(cd))), rtol=1e-4,
                     atol=1e-5), 'lift.vjp primal output')
  ctx.note(labels=[f'outside{len(depths)}', f'core{len(cd)}'],
           nontrivial=len(set(depths)) >= 2)
