"""C10 — state-dict / msgpack serialisation round-trips and rejects mismatches."""
from __future__ import annotations

import collections
import math

import numpy as np
from hypothesis import strategies as st

from harness.core import begin, clause, Violation, sut, require, expect_raises

import jax
import jax.numpy as jnp
import ml_dtypes
import optax
from flax import serialization as ser
from flax import struct
from flax.core import FrozenDict
from flax.training import train_state

begin('C10')

ASSUMPTIONS = [
    'a restored array leaf may be a NumPy array where the original was a JAX '
    'array; dtype, shape and bytes are compared, not the Python array class',
    'non-native byte order: the dtype name stored in the file has no byte '
    'order, so the restored array is required to have the native-order dtype '
    'and the same *values*',
    'the real chunk limit (2**30 bytes) is reached only by lowering '
    'serialization.MAX_CHUNK_SIZE for the duration of one case',
]

STD_DTYPES = ['bool', 'int8', 'int16', 'int32', 'int64', 'uint8', 'uint16',
              'uint32', 'uint64', 'float16', 'float32', 'float64',
              'complex64', 'complex128']
ML_DTYPES = ['bfloat16', 'float8_e4m3fn', 'float8_e5m2', 'float8_e4m3b11fnuz',
             'float8_e4m3fnuz', 'float8_e5m2fnuz', 'float8_e3m4',
             'float8_e4m3', 'float8_e8m0fnu', 'float6_e2m3fn',
             'float6_e3m2fn', 'float4_e2m1fn', 'int4', 'uint4', 'int2',
             'uint2']
ML_DTYPES = [d for d in ML_DTYPES if hasattr(ml_dtypes, d)]
# dtypes JAX arrays can hold on this install
JAX_OK = ['bool', 'int8', 'int16', 'int32', 'uint8', 'uint16', 'uint32',
          'float16', 'float32', 'complex64', 'bfloat16', 'float8_e4m3fn',
          'float8_e5m2', 'int4', 'uint4']
LAYOUTS = ['C', 'F', 'T', 'strided', 'neg', 'broadcast', 'swapped']
KEYS = ['a', 'b', 'c', '', 'é', '0', '1', '10', 'params', 'x/y', '.']
FIELD_NAMES = ['p', 'q', 'r', 'mu', 'nu', 'count', 'name', 'fields', 'values']


def np_dtype(name):
  if name in STD_DTYPES:
    return np.dtype(name)
  return np.dtype(getattr(ml_dtypes, name))


def make_array(spec):
  dt = np_dtype(spec['dtype'])
  shape = tuple(spec['shape'])
  rng = np.random.default_rng(spec['seed'])
  layout = spec['layout']
  def gen(shape):
    n = int(np.prod(shape)) if shape else 1
    if spec['dtype'] in STD_DTYPES and spec['dtype'] != 'bool':
      raw = rng.integers(0, 256, size=n * dt.itemsize, dtype=np.uint8)
      return raw.view(dt).reshape(shape)
    return rng.integers(0, 2, size=shape).astype(dt)
  if layout == 'F' and len(shape) >= 1:
    a = np.asfortranarray(gen(shape))
  elif layout == 'T':
    a = gen(shape[::-1]).T
  elif layout == 'strided' and len(shape) >= 1:
    big = gen((shape[0] * 2 + 1,) + shape[1:])
    a = big[1::2][:shape[0]]
  elif layout == 'neg' and len(shape) >= 1:
    a = gen(shape)[::-1]
  elif layout == 'broadcast' and len(shape) >= 1:
    a = np.broadcast_to(gen(shape[1:]), shape)
  elif layout == 'swapped' and dt.itemsize > 1 and spec['dtype'] in STD_DTYPES:
    a = gen(shape)
    a = a.astype(a.dtype.newbyteorder('S'))
  else:
    a = gen(shape)
  assert a.shape == shape, (a.shape, shape, layout)
  if spec.get('jax') and spec['dtype'] in JAX_OK and layout != 'swapped':
    return jnp.asarray(a)
  return a


NT_CACHE = {}


def namedtuple_cls(fields):
  key = tuple(fields)
  if key not in NT_CACHE:
    NT_CACHE[key] = collections.namedtuple('NT_' + '_'.join(fields), fields)
  return NT_CACHE[key]


DC_CACHE = {}


def dataclass_cls(fields, statics):
  """struct dataclass with data fields `fields` and static fields `statics`."""
  key = (tuple(fields), tuple(statics))
  if key not in DC_CACHE:
    ns = {'__annotations__': {f: object for f in list(fields) + list(statics)}}
    for s in statics:
      ns[s] = struct.field(pytree_node=False, default=f'static-{s}')
    DC_CACHE[key] = struct.dataclass(
        type('DC_' + '_'.join(fields) + '__' + '_'.join(statics), (), ns))
  return DC_CACHE[key]


def leaf_strategy():
  shape = st.lists(st.integers(0, 3), max_size=4)
  arr = st.fixed_dictionaries({
      't': st.just('arr'),
      'dtype': st.one_of(st.sampled_from(STD_DTYPES),
                         st.sampled_from(ML_DTYPES)),
      'shape': shape, 'layout': st.sampled_from(LAYOUTS),
      'seed': st.integers(0, 2**31), 'jax': st.booleans()})
  npscalar = st.fixed_dictionaries({
      't': st.just('npscalar'),
      'dtype': st.one_of(st.sampled_from(STD_DTYPES),
                         st.sampled_from(ML_DTYPES)),
      'seed': st.integers(0, 2**31)})
  py = st.one_of(
      st.integers(-2**63, 2**64 - 1).map(lambda v: {'t': 'int', 'v': str(v)}),
      st.sampled_from(['nan', 'inf', '-inf', '-0.0', '0.0', '1.5',
                       '1e308', '5e-324']).map(lambda v: {'t': 'float', 'v': v}),
      st.booleans().map(lambda v: {'t': 'bool', 'v': v}),
      st.just({'t': 'none'}),
      st.sampled_from(['', 'abc', 'é\x00', '\U0001F600']).map(
          lambda v: {'t': 'str', 'v': v}),
      st.sampled_from(['', '00ff', 'c1', 'deadbeef']).map(
          lambda v: {'t': 'bytes', 'v': v}),
      st.tuples(st.sampled_from(['nan', 'inf', '-0.0', '2.5']),
                st.sampled_from(['nan', '-inf', '0.0', '-1.25'])).map(
                    lambda v: {'t': 'complex', 'v': list(v)}))
  return st.one_of(arr, arr, npscalar, py)


def long_seq():
  """Lists/tuples with more than ten entries (index keys '10', '11', ... sort
  before '2' as strings), small distinct leaves."""
  return st.tuples(st.sampled_from(['list', 'tuple']), st.integers(11, 14),
                   st.integers(0, 1000)).map(lambda t: {
                       't': t[0], 'items': [
                           {'t': 'arr', 'dtype': 'int32', 'shape': [2],
                            'layout': 'C', 'seed': t[2] + i, 'jax': False}
                           for i in range(t[1])]})


def tree_strategy(max_leaves=8):
  def ext(inner):
    items = st.lists(inner, max_size=4)
    keyed = st.lists(st.tuples(st.sampled_from(KEYS), inner), max_size=4,
                     unique_by=lambda kv: kv[0])
    fielded = st.lists(st.tuples(st.sampled_from(FIELD_NAMES), inner),
                       min_size=1, max_size=3, unique_by=lambda kv: kv[0])
    return st.one_of(
        keyed.map(lambda kv: {'t': 'dict', 'items': [list(x) for x in kv]}),
        keyed.map(lambda kv: {'t': 'fdict', 'items': [list(x) for x in kv]}),
        items.map(lambda xs: {'t': 'list', 'items': xs}),
        items.map(lambda xs: {'t': 'tuple', 'items': xs}),
        long_seq(),
        fielded.map(lambda kv: {'t': 'nt', 'items': [list(x) for x in kv]}),
        st.tuples(fielded, st.lists(st.sampled_from(['s1', 's2']), max_size=2,
                                    unique=True)).map(
            lambda t: {'t': 'dc', 'items': [list(x) for x in t[0]],
                       'statics': t[1]}),
        st.tuples(inner, st.sampled_from(['sgd', 'adam', 'momentum'])).map(
            lambda t: {'t': 'ts', 'params': t[0], 'tx': t[1]}),
    )
  return st.recursive(leaf_strategy(), ext, max_leaves=max_leaves)


def _float(s):
  return float(s)


def float_only(n):
  """True if subtree n can serve as optax params (float arrays in containers)."""
  t = n['t']
  if t == 'arr':
    return n['dtype'] in ('float32',) and n['layout'] != 'swapped'
  if t in ('dict', 'fdict'):
    return all(float_only(v) for _, v in n['items'])
  if t in ('list', 'tuple'):
    return all(float_only(v) for v in n['items'])
  return False


def build(n):
  t = n['t']
  if t == 'arr':
    return make_array(n)
  if t == 'npscalar':
    a = make_array({'dtype': n['dtype'], 'shape': [], 'layout': 'C',
                    'seed': n['seed']})
    return a[()]
  if t == 'int':
    return int(n['v'])
  if t == 'float':
    return _float(n['v'])
  if t == 'bool':
    return bool(n['v'])
  if t == 'none':
    return None
  if t == 'str':
    return n['v']
  if t == 'bytes':
    return bytes.fromhex(n['v'])
  if t == 'complex':
    return complex(_float(n['v'][0]), _float(n['v'][1]))
  if t == 'dict':
    return {k: build(v) for k, v in n['items']}
  if t == 'fdict':
    return FrozenDict({k: build(v) for k, v in n['items']})
  if t == 'list':
    return [build(v) for v in n['items']]
  if t == 'tuple':
    return tuple(build(v) for v in n['items'])
  if t == 'nt':
    cls = namedtuple_cls([k for k, _ in n['items']])
    return cls(*[build(v) for _, v in n['items']])
  if t == 'dc':
    cls = dataclass_cls([k for k, _ in n['items']], n['statics'])
    return cls(**{k: build(v) for k, v in n['items']})
  if t == 'ts':
    params = build(n['params']) if (float_only(n['params']) and n['params'][
        't'] in ('dict', 'fdict')) else {
        'w': jnp.ones((2,), jnp.float32)}
    tx = {'sgd': optax.sgd(0.1), 'adam': optax.adam(0.1),
          'momentum': optax.sgd(0.1, momentum=0.9)}[n['tx']]
    return train_state.TrainState.create(apply_fn=_apply_fn, params=params,
                                         tx=tx)
  raise AssertionError(t)


def _apply_fn(*a, **k):
  return None


def is_array(x):
  return isinstance(x, (np.ndarray, jax.Array))


def native(dt):
  dt = np.dtype(dt)
  return dt.newbyteorder('=') if dt.byteorder not in ('=', '|') else dt


def leaf_sig(x):
  """(kind, dtype, shape, value-bytes) of a leaf, byte order normalised."""
  if is_array(x):
    a = np.asarray(x)
    nat = native(a.dtype)
    b = np.ascontiguousarray(a.astype(nat) if nat != a.dtype else a).tobytes()
    return ('array', str(nat), tuple(a.shape), b)
  if isinstance(x, np.generic):
    return ('npscalar', str(native(x.dtype)), (), np.asarray(x).tobytes())
  if isinstance(x, float):
    return ('float', None, None, np.float64(x).tobytes())
  if isinstance(x, complex):
    return ('complex', None, None, np.complex128(x).tobytes())
  return (type(x).__name__, None, None, x)


def compare(a, b, path, ordered=True):
  """a: original, b: restored."""
  if isinstance(a, (dict, FrozenDict)):
    require(type(a) is type(b), lambda: f'container type at {path}: '
            f'{type(a).__name__} -> {type(b).__name__}')
    ka, kb = list(a.keys()), list(b.keys())
    require(ka == kb if ordered else sorted(ka) == sorted(kb),
            lambda: f'keys at {path}: {ka} -> {kb}')
    for k in a.keys():
      compare(a[k], b[k], path + (k,), ordered)
    return
  if isinstance(a, tuple) and hasattr(a, '_fields'):
    require(type(a) is type(b), f'namedtuple class changed at {path}')
    for f in a._fields:
      compare(getattr(a, f), getattr(b, f), path + (f,))
    return
  if isinstance(a, (list, tuple)):
    require(type(a) is type(b) and len(a) == len(b), lambda: f'sequence at '
            f'{path}: {type(a).__name__}[{len(a)}] -> {type(b).__name__}')
    for i, (x, y) in enumerate(zip(a, b)):
      compare(x, y, path + (i,))
    return
  if hasattr(type(a), '_flax_dataclass'):
    import dataclasses
    require(type(a) is type(b), f'dataclass class changed at {path}')
    for f in dataclasses.fields(a):
      x, y = getattr(a, f.name), getattr(b, f.name)
      if f.metadata.get('pytree_node', True):
        compare(x, y, path + (f.name,))
      else:
        require(x is y or x == y, f'static field {f.name} changed at {path}')
    return
  sa, sb = leaf_sig(a), leaf_sig(b)
  require(sa == sb, lambda: f'leaf at {path}: {describe(sa)} -> {describe(sb)}')


def describe(sig):
  kind, dt, shape, b = sig
  if isinstance(b, bytes) and len(b) > 24:
    b = b[:24].hex() + '...'
  elif isinstance(b, bytes):
    b = b.hex()
  return f'{kind}[{dt},{shape}]={b}'


def snapshot(x):
  """ids + bytes of everything reachable (to prove inputs untouched)."""
  if isinstance(x, (dict, FrozenDict)):
    src = x._dict if isinstance(x, FrozenDict) else x
    return ('D', id(x), tuple((k, snapshot(v)) for k, v in src.items()))
  if isinstance(x, (list, tuple)):
    return ('S', id(x), type(x).__name__, tuple(snapshot(v) for v in x))
  if hasattr(type(x), '_flax_dataclass'):
    import dataclasses
    return ('C', id(x), tuple((f.name, snapshot(getattr(x, f.name)))
                              for f in dataclasses.fields(x)
                              if f.metadata.get('pytree_node', True)))
  if is_array(x):
    a = np.asarray(x)
    return ('A', id(x), str(a.dtype), a.shape, a.strides if isinstance(
        x, np.ndarray) else None, a.tobytes())
  return ('L', id(x), leaf_sig(x))


def stats(n, acc):
  t = n['t']
  acc['kinds'].add(t)
  if t == 'arr':
    acc['arrays'].append(n)
  for child in (n.get('items') or []):
    stats(child[1] if isinstance(child, list) and len(child) == 2
          and isinstance(child[0], str) else child, acc)
  if t == 'ts':
    stats(n['params'], acc)
  return acc


THRESHOLDS = [1, 2, 3, 7, 16, 2**30]


def with_threshold(th, fn):
  old = ser.MAX_CHUNK_SIZE
  ser.MAX_CHUNK_SIZE = th
  try:
    return fn()
  finally:
    ser.MAX_CHUNK_SIZE = old


def nontrivial(n, th):
  acc = stats(n, {'kinds': set(), 'arrays': []})
  containers = acc['kinds'] & {'dict', 'fdict', 'list', 'tuple', 'nt', 'dc',
                               'ts'}
  exotic = any(a['dtype'] in ML_DTYPES or a['layout'] != 'C'
               for a in acc['arrays'])
  small_th = any(np_dtype(a['dtype']).itemsize * int(np.prod(a['shape'] or [1]))
                 > th for a in acc['arrays'])
  return len(containers) >= 2 and (exotic or small_th), acc


@clause('roundtrip',
        strategy=lambda: st.tuples(tree_strategy(),
                                   st.sampled_from(THRESHOLDS)),
        quick=2500, thorough=150000, quick_shards=4,
        rule='random pytrees (dict/FrozenDict/list/tuple/namedtuple/struct '
        'dataclass/TrainState; NumPy+JAX arrays of 14 standard and up to 16 '
        'ml_dtypes dtypes, rank 0-4 with zero-size dims, 7 layouts; NumPy '
        'scalars; int/float(nan,inf,-0.0)/bool/None/str/bytes/complex) x '
        'chunk threshold in {1,2,3,7,16,2^30}: from_bytes(t,to_bytes(t)) and '
        'from_state_dict(t,to_state_dict(t)) equal t in container types, '
        'dtype, shape, bytes; same result for the default threshold; inputs '
        'unchanged; non-trivial = >=2 container kinds and (exotic dtype or '
        'layout, or an array larger than the threshold)')
def roundtrip(case, ctx):
  n, th = case
  tree = build(n)
  before = snapshot(tree)
  with sut('to_state_dict'):
    sd = ser.to_state_dict(tree)
  require(snapshot(tree) == before, 'to_state_dict modified its input')
  with sut('from_state_dict'):
    back = ser.from_state_dict(tree, sd)
  compare(tree, back, ())
  with sut('to_bytes'):
    data = with_threshold(th, lambda: ser.to_bytes(tree))
  require(isinstance(data, bytes), 'to_bytes did not return bytes')
  require(snapshot(tree) == before, 'to_bytes modified its input')
  with sut('from_bytes'):
    back = with_threshold(th, lambda: ser.from_bytes(tree, data))
  compare(tree, back, ())
  require(snapshot(tree) == before, 'from_bytes modified the target')
  # restoring with a different threshold than the one used for saving, and
  # bytes written with the default threshold: same result
  with sut('from_bytes(other threshold)'):
    back2 = ser.from_bytes(tree, data)
    data_default = ser.to_bytes(tree)
    back3 = with_threshold(th, lambda: ser.from_bytes(tree, data_default))
  compare(tree, back2, ())
  compare(tree, back3, ())
  # target=None returns the raw state dict; it must hold the same leaves
  nt, acc = nontrivial(n, th)
  labels = sorted(acc['kinds'] - {'int', 'float', 'bool', 'none', 'str',
                                  'bytes', 'complex'})
  labels += sorted({'dtype:' + a['dtype'] for a in acc['arrays']})
  labels += sorted({'layout:' + a['layout'] for a in acc['arrays']})
  labels.append(f'th:{th}')
  ctx.note(labels=labels, nontrivial=nt)


def raw_tree_strategy():
  """State-dict shaped trees for the low-level msgpack functions."""
  leaf = leaf_strategy()
  def ext(inner):
    return st.lists(st.tuples(st.sampled_from(KEYS), inner), max_size=4,
                    unique_by=lambda kv: kv[0]).map(
                        lambda kv: {'t': 'dict', 'items': [list(x) for x in kv]})
  return st.recursive(leaf, ext, max_leaves=8)


@clause('msgpack_raw',
        strategy=lambda: st.tuples(raw_tree_strategy(),
                                   st.sampled_from(THRESHOLDS)),
        quick=1500, thorough=80000,
        rule='state-dict shaped trees (nested str-keyed dicts, array/scalar '
        'leaves, also a bare array root) x threshold: msgpack_restore('
        'msgpack_serialize(x)) equals x, serialize(in_place=False) leaves x '
        'untouched; non-trivial = an array larger than the threshold')
def msgpack_raw(case, ctx):
  n, th = case
  tree = build(n)
  before = snapshot(tree)
  with sut('msgpack_serialize'):
    data = with_threshold(th, lambda: ser.msgpack_serialize(tree))
  require(snapshot(tree) == before,
          'msgpack_serialize(in_place=False) modified its input')
  with sut('msgpack_restore'):
    back = ser.msgpack_restore(data)
  # the low-level functions promise no key order (tree_map sorts dict keys)
  compare(tree, back, (), ordered=False)
  nt, acc = nontrivial(n, th)
  big = any(np_dtype(a['dtype']).itemsize * int(np.prod(a['shape'] or [1])) > th
            for a in acc['arrays'])
  ctx.note(nontrivial=big, labels=[f'th:{th}'])


# ----------------------------------------------------------------------------
# mismatch rejection
# ----------------------------------------------------------------------------
def container_paths(n, path=()):
  """All (path, node) of container nodes in the spec."""
  out = []
  t = n['t']
  if t in ('dict', 'fdict', 'nt', 'dc'):
    out.append((path, n))
    for k, v in n['items']:
      out += container_paths(v, path + (k,))
  elif t in ('list', 'tuple'):
    out.append((path, n))
    for i, v in enumerate(n['items']):
      out += container_paths(v, path + (str(i),))
  return out


def replace_at(n, path, fn):
  if not path:
    return fn(n)
  t = n['t']
  head = path[0]
  m = dict(n)
  if t in ('dict', 'fdict', 'nt', 'dc'):
    m['items'] = [[k, replace_at(v, path[1:], fn) if k == head else v]
                  for k, v in n['items']]
  else:
    m['items'] = [replace_at(v, path[1:], fn) if str(i) == head else v
                  for i, v in enumerate(n['items'])]
  return m


MUTATIONS = ['add_key', 'longer', 'shorter', 'rename_field', 'surplus_state',
             'permute', 'drop_state_key', 'reorder_state', 'reorder_state',
             'wrong_index', 'surplus_state_fields']


def state_replace_at(state, path, fn):
  """Copy of a (plain-dict) state dict with the sub-dict at path replaced."""
  if not path:
    return fn(state)
  out = dict(state)
  out[path[0]] = state_replace_at(state[path[0]], path[1:], fn)
  return out


def nomix_tree():
  """Trees without TrainState (mutations address containers by spec path)."""
  def ext(inner):
    items = st.lists(inner, max_size=3)
    keyed = st.lists(st.tuples(st.sampled_from(['a', 'b', 'c', '0', '10']),
                               inner), max_size=3, unique_by=lambda kv: kv[0])
    fielded = st.lists(st.tuples(st.sampled_from(FIELD_NAMES), inner),
                       min_size=1, max_size=3, unique_by=lambda kv: kv[0])
    return st.one_of(
        keyed.map(lambda kv: {'t': 'dict', 'items': [list(x) for x in kv]}),
        keyed.map(lambda kv: {'t': 'fdict', 'items': [list(x) for x in kv]}),
        items.map(lambda xs: {'t': 'list', 'items': xs}),
        items.map(lambda xs: {'t': 'tuple', 'items': xs}),
        long_seq(),
        fielded.map(lambda kv: {'t': 'nt', 'items': [list(x) for x in kv]}),
        fielded.map(lambda kv: {'t': 'dc', 'items': [list(x) for x in kv],
                                'statics': []}))
  leaf = st.integers(0, 50).map(lambda i: {
      't': 'arr', 'dtype': 'int32', 'shape': [2], 'layout': 'C', 'seed': i,
      'jax': False})
  return ext(st.recursive(leaf, ext, max_leaves=6))


@clause('mismatch',
        strategy=lambda: st.tuples(nomix_tree(), st.sampled_from(MUTATIONS),
                                   st.integers(0, 1000), st.integers(0, 1000),
                                   st.booleans()),
        quick=2500, thorough=120000,
        rule='random trees with distinct leaf values; one container of the '
        '*target* is mutated (extra key/field, longer or shorter list/tuple, '
        'renamed namedtuple/dataclass field) -> ValueError naming the path; '
        'a surplus dict key in the *state* is ignored; a target with permuted '
        'dict/namedtuple order restores every value under its own key; the '
        '*state* sub-dict of any container re-ordered (string-sorted, '
        'reversed, rotated) restores identically and a sequence state whose '
        'index keys are not 0..n-1 raises; lists/tuples of 11-14 entries '
        'included; '
        'non-trivial = mutated container is nested (path length>=1)')
def mismatch(case, ctx):
  n, mut, i, j, via_bytes = case
  conts = container_paths(n)
  kinds = {
      'add_key': ('dict', 'fdict', 'nt', 'dc'),
      'drop_state_key': ('dict', 'fdict', 'nt', 'dc'),
      'longer': ('list', 'tuple'), 'shorter': ('list', 'tuple'),
      'rename_field': ('nt', 'dc'), 'surplus_state': ('dict', 'fdict'),
      'permute': ('dict', 'fdict', 'nt'),
      'reorder_state': ('dict', 'fdict', 'nt', 'dc', 'list', 'tuple'),
      # field names must match exactly: a saved namedtuple / dataclass with
      # more fields than the target is rejected (only dict keys may be extra)
      'surplus_state_fields': ('nt', 'dc'),
      'wrong_index': ('list', 'tuple'),
  }[mut]
  cands = [(p, c) for p, c in conts if c['t'] in kinds]
  if mut in ('shorter', 'rename_field', 'drop_state_key'):
    cands = [(p, c) for p, c in cands if len(c['items']) >= 1]
  if mut in ('permute', 'reorder_state'):
    cands = [(p, c) for p, c in cands if len(c['items']) >= 2]
  if mut == 'wrong_index':
    cands = [(p, c) for p, c in cands if len(c['items']) >= 1]
  if not cands:
    ctx.note(labels=['no-candidate'])
    return
  path, cont = cands[i % len(cands)]
  extra_leaf = {'t': 'arr', 'dtype': 'int32', 'shape': [2], 'layout': 'C',
                'seed': 999, 'jax': False}
  saved_spec = n
  target_spec = n
  expect_error = True
  if mut == 'add_key':
    def f(c):
      c = dict(c)
      c['items'] = c['items'] + [['zz_new', extra_leaf]]
      return c
    target_spec = replace_at(n, path, f)
  elif mut == 'drop_state_key':
    # same as add_key seen from the other side: state lacks a target entry
    k = j % len(cont['items'])
    def f(c):
      c = dict(c)
      c['items'] = [it for idx, it in enumerate(c['items']) if idx != k]
      return c
    saved_spec = replace_at(n, path, f)
  elif mut == 'longer':
    def f(c):
      c = dict(c)
      c['items'] = c['items'] + [extra_leaf]
      return c
    target_spec = replace_at(n, path, f)
  elif mut == 'shorter':
    def f(c):
      c = dict(c)
      c['items'] = c['items'][:-1]
      return c
    target_spec = replace_at(n, path, f)
  elif mut == 'rename_field':
    k = j % len(cont['items'])
    def f(c):
      c = dict(c)
      c['items'] = [[('zz_' + kk) if idx == k else kk, v]
                    for idx, (kk, v) in enumerate(c['items'])]
      return c
    target_spec = replace_at(n, path, f)
  elif mut == 'surplus_state_fields':
    def f(c):
      c = dict(c)
      c['items'] = c['items'] + [['zz_surplus', extra_leaf]]
      return c
    saved_spec = replace_at(n, path, f)
  elif mut == 'surplus_state':
    def f(c):
      c = dict(c)
      c['items'] = c['items'] + [['zz_surplus', extra_leaf]]
      return c
    saved_spec = replace_at(n, path, f)
    expect_error = False
  elif mut == 'permute':
    def f(c):
      c = dict(c)
      k = 1 + j % (len(c['items']) - 1)
      c['items'] = c['items'][k:] + c['items'][:k]
      return c
    target_spec = replace_at(n, path, f)
    expect_error = False
  saved = build(saved_spec)
  target = build(target_spec)
  if mut in ('reorder_state', 'wrong_index'):
    # the *state* is edited: same entries in another insertion order (sorted
    # as strings, reversed or rotated) must restore identically; a sequence
    # sub-dict of the right length whose index keys are not 0..n-1 must raise
    with sut('to_state_dict'):
      sd = ser.to_state_dict(saved)
    def edit(sub):
      require(isinstance(sub, dict), lambda: f'state at {path} is not a dict')
      keys = list(sub)
      if mut == 'reorder_state':
        how = j % 3
        if how == 0:
          keys = sorted(keys, key=str)
          if keys == list(sub):
            keys = keys[::-1]
        elif how == 1:
          keys = keys[::-1]
        else:
          k = 1 + (j // 3) % (len(keys) - 1)
          keys = keys[k:] + keys[:k]
        return {k: sub[k] for k in keys}
      k = (j // 3) % len(keys)
      new = {}
      for idx, key in enumerate(keys):
        new[str(len(keys) + (j % 2)) if idx == k else key] = sub[key]
      return new
    with sut('edit state'):
      sd2 = state_replace_at(sd, path, edit)
    if via_bytes:
      with sut('msgpack_serialize'):
        state = ser.msgpack_serialize(sd2)
    else:
      state = sd2
    restore = (lambda: ser.from_bytes(target, state)) if via_bytes else (
        lambda: ser.from_state_dict(target, state))
    if mut == 'wrong_index':
      expect_raises((ValueError, KeyError), restore,
                    f'restore of a sequence whose state lacks an index at '
                    f'{path}')
    else:
      with sut('restore from re-ordered state'):
        back = restore()
      compare(saved, back, ())
    ctx.note(labels=[mut, cont['t'], 'bytes' if via_bytes else 'state_dict',
                     'long' if len(cont['items']) > 10 else 'short'],
             nontrivial=True)
    return
  with sut('serialise'):
    state = ser.to_bytes(saved) if via_bytes else ser.to_state_dict(saved)
  restore = (lambda: ser.from_bytes(target, state)) if via_bytes else (
      lambda: ser.from_state_dict(target, state))
  if expect_error:
    e = expect_raises(ValueError, restore, f'restore with {mut} at {path}')
    msg = str(e)
    want = '/'.join(path)
    require(want in msg, lambda: f'error for {mut} at path {path} does not '
            f'name the path {want!r}: {msg[:300]}')
  else:
    with sut(f'restore with {mut}'):
      back = restore()
    # every leaf comes back under its own key: compare with the target-shaped
    # build of the *saved* values
    if mut == 'surplus_state':
      compare(build(n), back, ())
    else:
      compare(target, back, ())
      # and values really are keyed by name: look one up through the path
      def lookup(tree, p):
        for k in p:
          if isinstance(tree, (dict, FrozenDict)):
            tree = tree[k]
          elif hasattr(tree, '_fields') or hasattr(type(tree),
                                                   '_flax_dataclass'):
            tree = getattr(tree, k)
          else:
            tree = tree[int(k)]
        return tree
      for k, v in cont['items']:
        if v['t'] == 'arr':
          got = lookup(back, path + (k,))
          exp = make_array(v)
          require(np.array_equal(got, exp), lambda: f'value under key {k!r} '
                  f'at {path} mis-assigned after permuting the target order')
  ctx.note(labels=[mut, cont['t'], 'bytes' if via_bytes else 'state_dict'],
           nontrivial=len(path) >= 1)


# ----------------------------------------------------------------------------
# two restores overlapping in different threads: the path named by a mismatch
# error belongs to the restore that failed (the harness owns the schedule: a
# registered user type blocks inside its restore hook)
import threading as _threading


class _Gate:
  def __init__(self, v):
    self.v = v


_GATE_HOOK = {'fn': None}


def _gate_from_sd(g, sd):
  fn = _GATE_HOOK['fn']
  if fn is not None:
    fn()
  return _Gate(sd['v'])


ser.register_serialization_state(_Gate, lambda g: {'v': g.v}, _gate_from_sd,
                                 override=True)

PKEYS = ['model', 'opt', 'mu', 'layers', 'block', 'a', 'b']


def _nest(path, leaf):
  for k in reversed(path):
    leaf = {k: leaf}
  return leaf


@clause('mismatch_concurrent',
        strategy=lambda: st.fixed_dictionaries({
            'hold': st.lists(st.sampled_from(PKEYS), min_size=1, max_size=4),
            'fail': st.lists(st.sampled_from(PKEYS), min_size=1, max_size=4),
            'kind': st.sampled_from(['longer', 'shorter', 'missing_key']),
            'via_bytes': st.booleans(),
            'who_fails': st.sampled_from(['main', 'worker'])}),
        quick=300, thorough=6000, quick_shards=4, thorough_shards=8,
        shrink=False,
        rule='restore A (a tree whose leaf at a random path is a registered '
        'user type that blocks inside its restore hook) is held mid-way in one '
        'thread while restore B (list of different length / missing key at '
        'another random path) fails in another thread: B\'s error message is '
        'exactly the message B gives when nothing else runs, A completes with '
        'the right value, and a failing restore after both names only its own '
        'path; non-trivial = both paths have >=2 segments')
def mismatch_concurrent(case, ctx):
  hold, fail, kind = case['hold'], case['fail'], case['kind']
  tree_a = _nest(hold, _Gate(np.arange(3)))
  saved_leaf = [np.arange(2), np.arange(2) + 1]
  if kind == 'longer':
    tgt_leaf = saved_leaf + [np.arange(2)]
  elif kind == 'shorter':
    tgt_leaf = saved_leaf[:1]
  else:
    saved_leaf, tgt_leaf = {'x': np.arange(2)}, {'x': np.arange(2),
                                                 'zz': np.arange(2)}
  saved_b, target_b = _nest(fail, saved_leaf), _nest(fail, tgt_leaf)
  if case['via_bytes']:
    state_a, state_b = ser.to_bytes(tree_a), ser.to_bytes(saved_b)
    restore_a = lambda: ser.from_bytes(tree_a, state_a)
    restore_b = lambda: ser.from_bytes(target_b, state_b)
  else:
    state_a, state_b = ser.to_state_dict(tree_a), ser.to_state_dict(saved_b)
    restore_a = lambda: ser.from_state_dict(tree_a, state_a)
    restore_b = lambda: ser.from_state_dict(target_b, state_b)
  alone = str(expect_raises(ValueError, restore_b, 'failing restore, alone'))
  require('/'.join(fail) in alone, lambda: f'error does not name the path '
          f'{"/".join(fail)!r}: {alone[:200]}')
  entered, release = _threading.Event(), _threading.Event()
  box = {}

  def hook():
    entered.set()
    if not release.wait(120):
      box['timeout'] = True

  def run(fn, key):
    try:
      box[key] = ('ok', fn())
    except Exception as e:  # noqa
      box[key] = ('err', e)

  _GATE_HOOK['fn'] = hook
  try:
    if case['who_fails'] == 'main':
      t = _threading.Thread(target=run, args=(restore_a, 'a'), daemon=True)
      t.start()
      if not entered.wait(120):
        raise RuntimeError('harness: holder thread never reached its hook')
      run(restore_b, 'b')
      release.set()
      t.join(300)
    else:
      # the main thread is held inside restore A, the worker fails meanwhile
      done = _threading.Event()

      def worker():
        entered.wait(120)
        run(restore_b, 'b')
        done.set()
        release.set()
      t = _threading.Thread(target=worker, daemon=True)
      t.start()
      run(restore_a, 'a')
      t.join(300)
  finally:
    _GATE_HOOK['fn'] = None
    release.set()
  if box.get('timeout') or 'a' not in box or 'b' not in box:
    raise RuntimeError('harness: schedule did not complete')
  kind_b, val_b = box['b']
  require(kind_b == 'err' and isinstance(val_b, ValueError), lambda: 'the '
          f'mismatching restore did not raise ValueError: {val_b!r}')
  require(str(val_b) == alone, lambda: 'a mismatch error raised while '
          'another thread was in the middle of a restore names a different '
          f'path:\n  alone:      {alone[-160:]}\n  concurrent: '
          f'{str(val_b)[-160:]}')
  kind_a, val_a = box['a']
  require(kind_a == 'ok', lambda: f'the held restore failed: {val_a!r}')
  leaf = val_a
  for k in hold:
    leaf = leaf[k]
  require(isinstance(leaf, _Gate) and np.array_equal(leaf.v, np.arange(3)),
          'the held restore returned a wrong value')
  again = str(expect_raises(ValueError, restore_b, 'failing restore, after'))
  require(again == alone, lambda: 'a later failing restore names a different '
          f'path: {again[-160:]}')
  ctx.note(labels=[kind, case['who_fails'], 'bytes' if case['via_bytes']
                   else 'state_dict'],
           nontrivial=len(hold) >= 2 and len(fail) >= 2)
