"""C08 — NNX vmap / scan / grad match the loop, the stack and jax.grad."""
from __future__ import annotations

import numpy as np
from hypothesis import strategies as st

from harness.core import begin, clause, Violation, sut, require, expect_raises

import jax
import jax.numpy as jnp
from flax import nnx
from flax.nnx import statelib, filterlib

begin('C08')

ASSUMPTIONS = [
    'modules are small harness classes with Param / BatchStat / Count '
    'Variables of rank>=1; state groups given a None axis are only read '
    'inside the mapped function (a shared group cannot receive per-index '
    'updates)',
    'references: per-index eager calls on sliced modules, a Python loop with '
    'the carry threaded, and jax.grad of the loss written functionally with '
    'nnx.split/merge; float32, rtol=1e-4',
]

TOL = dict(rtol=1e-4, atol=1e-5)


class Count(nnx.Variable):
  pass


class Blk(nnx.Module):
  def __init__(self, d, shapes):
    # shapes: {'w': shape, 'b': shape, 'mean': shape, 'count': shape}
    self.d = d
    self.w = nnx.Param(jnp.zeros(shapes['w']))
    self.b = nnx.Param(jnp.zeros(shapes['b']))
    self.mean = nnx.BatchStat(jnp.zeros(shapes['mean']))
    self.count = Count(jnp.zeros(shapes['count']))


BASE = lambda d: {'w': (d, d), 'b': (d,), 'mean': (d,), 'count': (1,)}
TYPE_OF = {'w': 'Param', 'b': 'Param', 'mean': 'BatchStat', 'count': 'Count'}
TYPES = {'Param': nnx.Param, 'BatchStat': nnx.BatchStat, 'Count': Count}


def wrap(transform, fn, seed, **kw):
  """The transform applied directly, transform(fn, **kw), or in its
  decorator / keyword-only spelling, transform(**kw)(fn)."""
  if seed % 2:
    return transform(fn, **kw)
  return transform(**kw)(fn)


def body(m, x, write):
  """Per-example computation; writes the state groups listed in `write`."""
  y = jnp.tanh(x @ m.w.value + m.b.value) + m.mean.value
  if 'BatchStat' in write:
    m.mean.value = 0.9 * m.mean.value + 0.1 * y
  if 'Count' in write:
    m.count.value = m.count.value + 1.0 + 0.0 * jnp.sum(y)
  return y * (1.0 + m.count.value[0])


def fill(m, rng, axes, n):
  """Random values; stacked groups get a leading/inner axis of size n."""
  d = m.d
  for name, base in BASE(d).items():
    ax = axes[name]
    shape = base if ax is None or ax == 'carry' else base[:ax] + (n,) + base[ax:]
    getattr(m, name).value = jnp.asarray(rng.normal(size=shape), jnp.float32)


def sliced(m, axes, i):
  """Eager per-index module: axis groups sliced at i, others shared."""
  d = m.d
  mi = Blk(d, BASE(d))
  for name in BASE(d):
    v = getattr(m, name).value
    ax = axes[name]
    getattr(mi, name).value = v if ax is None or ax == 'carry' else \
        jnp.take(v, i, axis=ax)
  return mi


def axes_case():
  return st.fixed_dictionaries({
      'd': st.integers(1, 3), 'n': st.integers(1, 4),
      'param_axis': st.sampled_from([0, 1, None]),
      'w_axis': st.sampled_from(['same', 0, 1, 2, 2]),
      'stat_axis': st.sampled_from([0, 1, None]),
      'count_axis': st.sampled_from([0, None]),
      'in_axis': st.sampled_from([0, 1]), 'out_axis': st.sampled_from([0, 1]),
      'write': st.lists(st.sampled_from(['BatchStat', 'Count']), max_size=2,
                        unique=True),
      'seed': st.integers(0, 2**16),
  })


def resolve_axes(case):
  pa = case['param_axis']
  wa = pa if case['w_axis'] == 'same' or pa is None else case['w_axis']
  return {'w': wa, 'b': pa, 'mean': case['stat_axis'],
          'count': case['count_axis']}


def state_axes(case, axes):
  items = []
  if axes['w'] != axes['b']:
    items.append((filterlib.PathContains('w'), axes['w']))
  items.append((nnx.Param, axes['b']))
  items.append((nnx.BatchStat, axes['mean']))
  items.append((Count, axes['count']))
  return nnx.StateAxes(dict(items)) if len({k for k, _ in items}) == len(
      items) else nnx.StateAxes(items)


def close(a, b):
  a, b = np.asarray(a), np.asarray(b)
  return a.shape == b.shape and np.allclose(a, b, **TOL)


@clause('vmap_vs_per_index', strategy=axes_case, quick=200, thorough=8000,
        quick_shards=16, thorough_shards=16, shrink=False,
        rule='StateAxes assignments (Param / PathContains("w") / BatchStat / '
        'Count -> axis 0, 1 or None) x batch size 1-4 x in/out axes 0/1 x '
        'which state groups the function writes: nnx.vmap output and the '
        'module state afterwards equal per-index eager calls on sliced '
        'modules (stacked along the declared axes, None groups shared and '
        'unchanged); non-trivial = >=2 groups with different axes and n>=2')
def vmap_vs_per_index(case, ctx):
  d, n = case['d'], case['n']
  axes = resolve_axes(case)
  write = [w for w in case['write']
           if axes['mean' if w == 'BatchStat' else 'count'] is not None]
  rng = np.random.default_rng(case['seed'])
  shapes = {k: (BASE(d)[k] if axes[k] is None else BASE(d)[k][:axes[k]] + (n,)
                + BASE(d)[k][axes[k]:]) for k in BASE(d)}
  m = Blk(d, shapes)
  fill(m, rng, axes, n)
  before = {k: np.asarray(getattr(m, k).value).copy() for k in BASE(d)}
  ids = {k: id(getattr(m, k)) for k in BASE(d)}
  xs = rng.normal(size=(n, d)).astype(np.float32)
  xin = jnp.asarray(xs if case['in_axis'] == 0 else xs.T)
  # reference
  ys, new = [], {k: [] for k in BASE(d)}
  for i in range(n):
    mi = sliced(m, axes, i)
    ys.append(np.asarray(body(mi, jnp.asarray(xs[i]), write)))
    for k in BASE(d):
      new[k].append(np.asarray(getattr(mi, k).value))
  with sut('nnx.vmap'):
    f = wrap(nnx.vmap, lambda mm, x: body(mm, x, write), case['seed'],
             in_axes=(state_axes(case, axes), case['in_axis']),
             out_axes=case['out_axis'])
    y = f(m, xin)
  require(close(y, np.stack(ys, axis=case['out_axis'])), lambda: f'vmap '
          f'output differs from per-index calls (axes={axes})')
  for k in BASE(d):
    require(id(getattr(m, k)) == ids[k], f'Variable {k} was replaced')
    got = np.asarray(getattr(m, k).value)
    if axes[k] is None:
      exp = before[k]
    else:
      exp = np.stack(new[k], axis=axes[k])
    require(close(got, exp), lambda: f'state {k} (axis {axes[k]}) after vmap '
            f'differs from the per-index reference')
  ctx.note(labels=sorted(f'{k}:{v}' for k, v in axes.items()),
           nontrivial=len({repr(v) for v in axes.values()}) >= 2 and n >= 2)


# ----------------------------------------------------------------------------
class Noisy(nnx.Module):
  def __init__(self, d, seeds):
    self.w = nnx.Param(jnp.ones((d,)))
    self.count = Count(jnp.zeros((1,)))
    self.rngs = nnx.Rngs(**seeds)


def noisy_body(m, x, streams):
  y = x * m.w.value
  for s in streams:
    y = y + jax.random.normal(m.rngs[s](), x.shape)
  m.count.value = m.count.value + 1.0
  return y


def split_case():
  return st.fixed_dictionaries({
      'd': st.integers(1, 3), 'n': st.integers(1, 4),
      'streams': st.lists(st.sampled_from(['noise', 'drop']), min_size=1,
                          max_size=2, unique=True),
      'draws': st.integers(1, 2),
      'calls': st.integers(1, 3),
      'form': st.sampled_from(['decorator', 'context', 'manual']),
      'pre': st.integers(0, 2),
      'seed': st.integers(0, 2**16),
  })


@clause('split_rngs_patterns', strategy=split_case, quick=120, thorough=4000,
        quick_shards=8, thorough_shards=16, shrink=False,
        rule='a module with 1-2 RngStreams (0-2 keys already drawn) mapped '
        'with nnx.vmap over split rng state, 1-3 calls on the same module; '
        'split_rngs as decorator above nnx.vmap, as context manager, or '
        'manual split + restore_rngs: every call equals the per-index loop '
        'that draws one key per stream from the (real) parent stream, splits '
        'it n ways and runs index i eagerly with an Rngs seeded by split i; '
        'afterwards the streams are unsplit, hold their original key and the '
        'count the reference parent streams hold, and the Count variable the '
        'stacked per-index value; non-trivial = n>=2 and calls>=2')
def split_rngs_patterns(case, ctx):
  d, n, streams = case['d'], case['n'], case['streams']
  draws = [s for s in streams for _ in range(case['draws'])]
  seeds = {s: case['seed'] + 7 * j for j, s in enumerate(streams)}
  m = Noisy(d, seeds)
  ref = nnx.Rngs(**seeds)
  for _ in range(case['pre']):
    for s in streams:
      m.rngs[s]()
      ref[s]()
  keys0 = {s: np.asarray(jax.random.key_data(m.rngs[s].key.value))
           for s in streams}
  rng = np.random.default_rng(case['seed'])
  axes = nnx.StateAxes({nnx.RngState: 0, Count: 0, ...: None})
  vm = nnx.vmap(lambda mm, x: noisy_body(mm, x, draws), in_axes=(axes, 0))
  count_ref = np.zeros((n, 1), np.float32)
  m.count.value = jnp.asarray(count_ref)
  outs = []
  for c in range(case['calls']):
    xs = rng.normal(size=(n, d)).astype(np.float32)
    # reference: one key per stream from the parent, split n ways
    sub = {s: jax.random.split(ref[s](), n) for s in streams}
    ys = []
    for i in range(n):
      mi = Noisy(d, {s: sub[s][i] for s in streams})
      mi.count.value = jnp.asarray(count_ref[i])
      ys.append(np.asarray(noisy_body(mi, jnp.asarray(xs[i]), draws)))
      count_ref[i] = np.asarray(mi.count.value)
    with sut(f'split_rngs ({case["form"]}) + nnx.vmap'):
      if case['form'] == 'decorator':
        y = nnx.split_rngs(splits=n)(vm)(m, jnp.asarray(xs))
      elif case['form'] == 'context':
        with nnx.split_rngs(m, splits=n):
          y = vm(m, jnp.asarray(xs))
      else:
        backups = nnx.split_rngs(m, splits=n)
        y = vm(m, jnp.asarray(xs))
        nnx.restore_rngs(backups)
    require(close(y, np.stack(ys)), lambda: f'call {c}: split_rngs + nnx.vmap '
            'output differs from the per-index loop over the split keys')
    outs.append(np.asarray(y) - xs)
    for s in streams:
      st_ = m.rngs[s]
      require(np.shape(st_.key.value) == () and np.array_equal(
          np.asarray(jax.random.key_data(st_.key.value)), keys0[s]),
              lambda: f'call {c}: stream {s} does not hold its original key '
              'after the split was undone')
      require(np.shape(st_.count.value) == () and int(st_.count.value) == int(
          ref[s].count.value), lambda: f'call {c}: stream {s} left with count '
              f'{np.asarray(st_.count.value)}, the reference parent stream is '
              f'at {int(ref[s].count.value)}')
    require(close(m.count.value, count_ref), lambda: f'call {c}: Count state')
  if n >= 2:
    require(not np.allclose(outs[0][0], outs[0][1]),
            'two indices drew the same noise from a split stream')
  if len(outs) >= 2:
    require(not np.allclose(outs[0], outs[1]),
            'two calls on the same module drew the same noise')
  ctx.note(labels=[case['form'], f'n{n}', f'calls{case["calls"]}',
                   f'pre{case["pre"]}', f'streams{len(streams)}'],
           nontrivial=n >= 2 and case['calls'] >= 2)


# ----------------------------------------------------------------------------
def scan_case():
  return st.fixed_dictionaries({
      'd': st.integers(1, 3), 'n': st.integers(1, 4),
      'param_axis': st.sampled_from([0, 1, None]),
      'w_axis': st.sampled_from(['same', 'same', 0, 1, 2, 2]),
      'stat_role': st.sampled_from([0, 'carry']),
      'count_role': st.sampled_from([0, 'carry']),
      'reverse': st.booleans(),
      'in_axis': st.sampled_from([0, 1]), 'out_axis': st.sampled_from([0, 1]),
      'write': st.lists(st.sampled_from(['BatchStat', 'Count']), max_size=2,
                        unique=True),
      # broadcast (in_axes=None) array inputs: 0-3 of them, as separate
      # arguments or as the leaves of one dict argument
      'bcast': st.sampled_from([0, 0, 1, 2, 3]),
      'bcast_form': st.sampled_from(['args', 'dict']),
      'seed': st.integers(0, 2**16),
  })


@clause('scan_vs_loop', strategy=scan_case, quick=200, thorough=8000,
        quick_shards=16, thorough_shards=16, shrink=False,
        rule='StateAxes assignments (Param -> axis 0/1/None i.e. broadcast, the '
        'rank-2 kernel via PathContains also on axis 2, '
        'BatchStat / Count -> axis 0 or Carry) x length 1-4 x reverse x in/'
        'out axes x 0-3 broadcast (in_axes=None) array inputs given as '
        'separate arguments or as one dict: nnx.scan final carry, stacked outputs and module state '
        'equal the Python loop with Carry state threaded, axis state sliced '
        'per step and broadcast state shared; non-trivial = a Carry group is '
        'written and n>=2, or reverse')
def scan_vs_loop(case, ctx):
  d, n = case['d'], case['n']
  wa = case['param_axis'] if case['w_axis'] == 'same' or case[
      'param_axis'] is None else case['w_axis']
  axes = {'w': wa, 'b': case['param_axis'],
          'mean': case['stat_role'], 'count': case['count_role']}
  write = list(case['write'])
  rng = np.random.default_rng(case['seed'])
  def shp(k):
    ax = axes[k]
    base = BASE(d)[k]
    return base if ax is None or ax == 'carry' else base[:ax] + (n,) + base[ax:]
  m = Blk(d, {k: shp(k) for k in BASE(d)})
  fill(m, rng, axes, n)
  before = {k: np.asarray(getattr(m, k).value).copy() for k in BASE(d)}
  xs = rng.normal(size=(n, d)).astype(np.float32)
  xin = jnp.asarray(xs if case['in_axis'] == 0 else xs.T)
  c0 = rng.normal(size=(d,)).astype(np.float32)
  nb = case.get('bcast', 0)
  bs = [rng.normal(size=(d,)).astype(np.float32) for _ in range(nb)]
  # every broadcast input enters with its own weight (a mix-up shows)
  bsum = sum(((j + 2.0) * b for j, b in enumerate(bs)),
             np.zeros((d,), np.float32))
  # reference loop
  carry_vals = {k: before[k] for k in BASE(d) if axes[k] == 'carry'}
  out_slices = {k: [None] * n for k in BASE(d)
                if axes[k] not in (None, 'carry')}
  c = jnp.asarray(c0)
  ys = [None] * n
  order = range(n - 1, -1, -1) if case['reverse'] else range(n)
  for i in order:
    mi = sliced(m, axes, i)
    for k, v in carry_vals.items():
      getattr(mi, k).value = jnp.asarray(v)
    y = body(mi, jnp.asarray(xs[i]) + c, write) + bsum
    c = c * 0.5 + jnp.mean(y)
    ys[i] = np.asarray(y)
    for k in carry_vals:
      carry_vals[k] = np.asarray(getattr(mi, k).value)
    for k in out_slices:
      out_slices[k][i] = np.asarray(getattr(mi, k).value)
  sa_items = []
  if axes['w'] != axes['b']:
    sa_items.append((filterlib.PathContains('w'), axes['w']))
  sa_items += [(nnx.Param, axes['b']),
               (nnx.BatchStat, nnx.Carry if axes['mean'] == 'carry' else 0),
               (Count, nnx.Carry if axes['count'] == 'carry' else 0)]
  sa = nnx.StateAxes(dict(sa_items))
  as_dict = case.get('bcast_form') == 'dict' and nb >= 1
  def step(mm, cc, x, *extra):
    y = body(mm, x + cc, write)
    if as_dict:
      extra = [extra[0][f'k{j}'] for j in range(nb)]
    for j, b in enumerate(extra):
      y = y + (j + 2.0) * b
    return cc * 0.5 + jnp.mean(y), y
  if as_dict:
    extra_axes = (None,)
    # (keys inserted in an order that differs from their sorted order)
    extra_args = ({f'k{j}': jnp.asarray(bs[j]) for j in reversed(range(nb))},)
  else:
    extra_axes = (None,) * nb
    extra_args = tuple(jnp.asarray(b) for b in bs)
  with sut('nnx.scan'):
    f = wrap(nnx.scan, step, case['seed'],
             in_axes=(sa, nnx.Carry, case['in_axis']) + extra_axes,
             out_axes=(nnx.Carry, case['out_axis']), length=n,
             reverse=case['reverse'])
    c_s, y_s = f(m, jnp.asarray(c0), xin, *extra_args)
  require(close(c_s, c), lambda: f'final carry {np.asarray(c_s)} vs loop '
          f'{np.asarray(c)} (axes={axes}, reverse={case["reverse"]})')
  require(close(y_s, np.stack(ys, axis=case['out_axis'])), lambda: 'stacked '
          f'outputs differ from the loop (axes={axes}, reverse='
          f'{case["reverse"]})')
  for k in BASE(d):
    got = np.asarray(getattr(m, k).value)
    if axes[k] is None:
      exp = before[k]
    elif axes[k] == 'carry':
      exp = carry_vals[k]
    else:
      exp = np.stack(out_slices[k], axis=axes[k])
    require(close(got, exp), lambda: f'state {k} ({axes[k]}) after scan '
            'differs from the loop')
  carry_written = any(axes['mean' if w == 'BatchStat' else 'count'] == 'carry'
                      for w in write)
  ctx.note(labels=sorted(f'{k}:{v}' for k, v in axes.items()) + [
      'rev' if case['reverse'] else 'fwd', f'bcast{nb}'],
           nontrivial=(carry_written and n >= 2) or case['reverse'])


# ----------------------------------------------------------------------------
class CarryMod(nnx.Module):
  """Small module threaded through nnx.scan as (part of) the Carry."""

  def __init__(self, scale, extra):
    self.scale = nnx.Param(jnp.asarray(scale, jnp.float32))
    self.acc = nnx.BatchStat(jnp.zeros((), jnp.float32))
    if extra:
      self.steps = Count(jnp.zeros((), jnp.float32))


def carry_case():
  return st.fixed_dictionaries({
      'mods': st.lists(st.tuples(st.integers(-3, 3), st.booleans()),
                       min_size=1, max_size=3),
      # 'var': a bare Variable is (part of) the carry
      'container': st.sampled_from(['tuple', 'list', 'dict', 'bare', 'var',
                                    'tuple+var']),
      'with_array': st.booleans(), 'n': st.integers(1, 4),
      'reverse': st.booleans(), 'seed': st.integers(0, 2**16)})


@clause('scan_module_carry', strategy=carry_case, quick=120, thorough=5000,
        quick_shards=8, thorough_shards=16, shrink=False,
        rule='nnx.scan whose Carry argument is a module, a bare Variable, or a '
        'tuple / list / dict of 1-3 modules of different structure '
        '(optionally with an array and a bare Variable): every step reads and updates each carried module; after the '
        'scan each of the caller\'s modules holds the state the Python loop '
        'leaves in its twin, the returned carry has the same structure and '
        'values, and the stacked outputs match; non-trivial = >=2 carried '
        'modules and n>=2')
def scan_module_carry(case, ctx):
  n = case['n']
  rng = np.random.default_rng(case['seed'])
  xs = rng.integers(-3, 4, size=(n,)).astype(np.float32)
  kind = case['container']
  specs = list(case['mods']) if kind != 'bare' else list(case['mods'])[:1]
  with_var = kind in ('var', 'tuple+var')
  kind = {'var': 'barevar', 'tuple+var': 'tuple'}.get(kind, kind)
  def build():
    ms = [CarryMod(float(sc), ex) for sc, ex in specs]
    arr = jnp.asarray(1.0, jnp.float32) if case['with_array'] and \
        kind not in ('bare', 'barevar') else None
    if kind == 'barevar':
      v = Count(jnp.asarray(float(specs[0][0]), jnp.float32))
      return [v], v
    if with_var:
      ms = ms + [Count(jnp.asarray(0.5, jnp.float32))]
    if kind == 'bare':
      return ms, ms[0]
    items = list(ms) + ([arr] if arr is not None else [])
    if kind == 'tuple':
      return ms, tuple(items)
    if kind == 'list':
      return ms, list(items)
    return ms, {f'k{i}': it for i, it in enumerate(items)}
  def elems(c):
    if kind in ('bare', 'barevar'):
      return [c]
    return list(c.values()) if isinstance(c, dict) else list(c)
  def step(carry, x):
    es = elems(carry)
    y = x
    for i, e in enumerate(es):
      if isinstance(e, CarryMod):
        e.acc.value = e.acc.value * 0.5 + x * e.scale.value + i
        if hasattr(e, 'steps'):
          e.steps.value = e.steps.value + 1.0
        y = y + e.acc.value
      elif isinstance(e, nnx.Variable):
        e.value = e.value * 0.5 + x + i
        y = y + e.value
    new = []
    for e in es:
      new.append(e if isinstance(e, (CarryMod, nnx.Variable))
                 else e * 0.5 + y)
    if kind in ('bare', 'barevar'):
      out = new[0]
    elif kind == 'tuple':
      out = tuple(new)
    elif kind == 'list':
      out = list(new)
    else:
      out = {f'k{i}': it for i, it in enumerate(new)}
    return out, y
  # reference loop on twins
  ms_ref, c_ref = build()
  ys = [None] * n
  order = range(n - 1, -1, -1) if case['reverse'] else range(n)
  for i in order:
    c_ref, y = step(c_ref, jnp.asarray(xs[i]))
    ys[i] = np.asarray(y)
  ms, c0 = build()
  with sut('nnx.scan (module carry)'):
    f = wrap(nnx.scan, step, case['seed'], in_axes=(nnx.Carry, 0),
             out_axes=(nnx.Carry, 0), length=n, reverse=case['reverse'])
    c_s, y_s = f(c0, jnp.asarray(xs))
  require(close(y_s, np.stack(ys)), lambda: f'stacked outputs '
          f'{np.asarray(y_s)} differ from the loop {np.stack(ys)}')
  def st_of(m):
    if isinstance(m, nnx.Variable):
      return {'value': float(np.asarray(m.value))}
    return {k: float(np.asarray(getattr(m, k).value))
            for k in ('scale', 'acc', 'steps') if hasattr(m, k)}
  for i, (m, mr) in enumerate(zip(ms, ms_ref)):
    require(st_of(m) == st_of(mr), lambda: f'carried module #{i} of the '
            f'caller ends with {st_of(m)}, the Python loop leaves '
            f'{st_of(mr)} in its twin')
  es, er = elems(c_s), elems(c_ref)
  require(type(c_s) is type(c_ref) and len(es) == len(er), lambda: 'returned '
          f'carry is a {type(c_s).__name__} of {len(es)}, loop '
          f'{type(c_ref).__name__} of {len(er)}')
  for i, (a, b) in enumerate(zip(es, er)):
    if isinstance(b, (CarryMod, nnx.Variable)):
      require(type(a) is type(b) and st_of(a) == st_of(b), lambda: 
              f'returned carry element #{i} holds '
              f'{st_of(a) if isinstance(a, (CarryMod, nnx.Variable)) else a}'
              f', loop {st_of(b)}')
      require(a is ms[i], lambda: f'returned carry element #{i} is not the '
              'caller\'s own object (the Python loop hands back the very '
              'object it was given)')
    else:
      require(close(a, b), f'returned carry array #{i} differs from the loop')
  ctx.note(labels=[kind, f'mods{len(specs)}', f'n{n}',
                   'rev' if case['reverse'] else 'fwd'],
           nontrivial=len(specs) >= 2 and n >= 2)


# ----------------------------------------------------------------------------
def grad_case():
  return st.fixed_dictionaries({
      'd': st.integers(1, 3),
      'wrt': st.sampled_from(['default', 'Param', 'BatchStat', 'w_only',
                              'param_or_stat']),
      'has_aux': st.booleans(), 'vag': st.booleans(),
      'two_args': st.booleans(),
      # argnums listed in descending order: results follow the given order
      'descending': st.booleans(),
      'seed': st.integers(0, 2**16),
      # calls made on ONE transformed function object before the call that
      # is checked last: valid calls, calls that are rejected (integer
      # parameters without allow_int) and edits of undifferentiated state
      'history': st.lists(st.sampled_from(['valid', 'reject', 'mutate',
                                           'mutate']), max_size=3),
  })


@clause('grad_vs_jax', strategy=grad_case, quick=200, thorough=6000,
        quick_shards=16, thorough_shards=16, shrink=False,
        rule='nnx.grad / nnx.value_and_grad with argnums = int or DiffState('
        'argnum, filter) (Param, BatchStat, PathContains("w"), Any) x has_aux '
        'x one or two module arguments x 0-3 earlier uses of the same '
        'transformed function (valid calls, rejected calls, edits of '
        'undifferentiated state): the gradient State contains exactly '
        'the selected paths and equals jax.grad of the loss written over '
        'nnx.split/merge; forward side effects (a counter) are applied once '
        'to the caller\'s objects; non-trivial = filter is not the default or '
        'two arguments')
def grad_vs_jax(case, ctx):
  d = case['d']
  rng = np.random.default_rng(case['seed'])
  none_axes = {k: None for k in BASE(d)}
  m1 = Blk(d, BASE(d))
  fill(m1, rng, none_axes, 1)
  m2 = Blk(d, BASE(d))
  fill(m2, rng, none_axes, 1)
  x = jnp.asarray(rng.normal(size=(2, d)), jnp.float32)
  flt = {'default': nnx.Param, 'Param': nnx.Param, 'BatchStat': nnx.BatchStat,
         'w_only': filterlib.PathContains('w'),
         'param_or_stat': filterlib.Any(nnx.Param, nnx.BatchStat)}[case['wrt']]

  def loss(a, b, xx):
    y = body(a, xx, ['Count'])
    if b is not None:
      y = y + body(b, xx, []) * 0.5
    l = jnp.sum(y ** 2)
    return (l, {'aux': jnp.mean(y)}) if case['has_aux'] else l

  two = case['two_args']
  if case['wrt'] == 'default':
    argnums = (0, 1) if two else 0
  else:
    argnums = (nnx.DiffState(0, flt), nnx.DiffState(1, flt)) if two else \
        nnx.DiffState(0, flt)
  desc = bool(two and case.get('descending'))
  if desc:
    argnums = tuple(argnums[::-1])
  tr = nnx.value_and_grad if case['vag'] else nnx.grad
  # reference: functional form
  def ref():
    gd1, s1 = nnx.split(m1)
    gd2, s2 = nnx.split(m2)
    def sel(s):
      return nnx.filter_state(s, flt) if hasattr(nnx, 'filter_state') else \
          s.filter(flt)
    sel1, sel2 = sel(s1), sel(s2)
    def pure(p1, p2):
      a = nnx.merge(gd1, nnx.merge_state(s1, p1))
      b = nnx.merge(gd2, nnx.merge_state(s2, p2)) if two else None
      out = loss(a, b, x)
      l = out[0] if case['has_aux'] else out
      return l
    pv1 = jax.tree_util.tree_map(lambda v: v, nnx.to_pure_dict(sel1))
    pv2 = jax.tree_util.tree_map(lambda v: v, nnx.to_pure_dict(sel2))
    def pure_vals(v1, v2):
      import copy
      a1, a2 = copy.deepcopy(sel1), copy.deepcopy(sel2)
      nnx.replace_by_pure_dict(a1, v1)
      nnx.replace_by_pure_dict(a2, v2)
      return pure(a1, a2)
    l, (g1, g2) = jax.value_and_grad(pure_vals, argnums=(0, 1))(pv1, pv2)
    return l, g1, g2
  with sut('nnx.grad (wrap)'):
    gf = wrap(tr, lambda a, b, xx: loss(a, b if two else None, xx),
              case['seed'], argnums=argnums, has_aux=case['has_aux'])
  hist = list(case.get('history', []))
  for hi, step in enumerate(hist):
    if step == 'mutate':
      # undifferentiated state changes between calls
      m1.mean.value = m1.mean.value + 0.5 * (hi + 1)
      m1.count.value = m1.count.value + 2.0
      m2.mean.value = m2.mean.value * 0.5
    elif step == 'reject':
      bad = Blk(d, BASE(d))
      fill(bad, rng, none_axes, 1)
      bad.w.value = jnp.ones(bad.w.value.shape, jnp.int32)
      bad.mean.value = bad.mean.value + 100.0
      try:
        gf(bad, bad if two else m2, x)
      except Exception:  # noqa: the rejection itself is not checked here
        pass
    else:
      with sut('nnx.grad (earlier call)'):
        gf(m1, m2, x)
  l_ref, g1_ref, g2_ref = ref()
  count_before = np.asarray(m1.count.value).copy()
  ids = {k: id(getattr(m1, k)) for k in BASE(d)}
  before_nondiff = {k: np.asarray(getattr(m1, k).value).copy()
                    for k in BASE(d)}
  with sut('nnx.grad'):
    out = gf(m1, m2, x)
  if case['vag']:
    val, grads = out
    lval = val[0] if case['has_aux'] else val
    require(close(lval, l_ref), 'value_and_grad value differs')
  else:
    grads = out[0] if case['has_aux'] else out
  g = grads if two else (grads,)
  refs, mods = (g1_ref, g2_ref), (m1, m2)
  if desc:
    refs, mods = refs[::-1], mods[::-1]
  for gi, (got, ref_g, mod) in enumerate(zip(g, refs, mods)):
    flat = dict(statelib.to_flat_state(got))
    exp_paths = {p for p, v in statelib.to_flat_state(nnx.state(mod))
                 if filterlib.to_predicate(flt)(p, v)}
    require(set(flat) == exp_paths, lambda: f'gradient {gi} holds paths '
            f'{sorted(flat)}, selected {sorted(exp_paths)}')
    ref_flat = {}
    def walk(x, p):
      if isinstance(x, dict):
        for k, v in x.items():
          walk(v, p + (k,))
      else:
        ref_flat[p] = x
    walk(ref_g, ())
    for p in flat:
      gv = flat[p].value if hasattr(flat[p], 'value') else flat[p]
      require(close(gv, ref_flat[p]), lambda: f'gradient {gi} at {p} differs '
              'from jax.grad of the functional form')
  # forward side effect once, on the caller's object
  require(all(id(getattr(m1, k)) == ids[k] for k in BASE(d)),
          'grad replaced Variables of the argument')
  require(close(m1.count.value, count_before + 1.0), lambda: 'counter after '
          f'grad = {np.asarray(m1.count.value)}, expected exactly one '
          f'forward pass ({count_before + 1.0})')
  # state the loss does not write is left as the caller set it
  for k in BASE(d):
    if k != 'count':
      require(np.array_equal(np.asarray(getattr(m1, k).value),
                             before_nondiff[k]), lambda: f'Variable {k} of '
              f'the argument changed from {before_nondiff[k]} to '
              f'{np.asarray(getattr(m1, k).value)} although the loss does '
              f'not write it (history {hist})')
  ctx.note(labels=[case['wrt'], 'vag' if case['vag'] else 'grad',
                   'two' if two else 'one'] + (['descending'] if desc else [])
           + sorted(set(hist)),
           nontrivial=case['wrt'] != 'default' or two)


# ----------------------------------------------------------------------------
def gradflag_case():
  return st.fixed_dictionaries({
      'flag': st.sampled_from(['holomorphic', 'allow_int', 'none']),
      'vag': st.booleans(), 'has_aux': st.booleans(),
      'd': st.integers(1, 3), 'seed': st.integers(0, 2**16)})


class _FlagMod(nnx.Module):
  def __init__(self, w, k, c):
    self.w = nnx.Param(w)
    self.k = nnx.Param(k)
    self.calls = nnx.Variable(c)


@clause('grad_flags', strategy=gradflag_case, quick=200, thorough=5000,
        quick_shards=8, thorough_shards=16, shrink=False,
        rule='nnx.grad / nnx.value_and_grad (direct and decorator spelling) '
        'with holomorphic=True (complex Params, holomorphic loss), '
        'allow_int=True (an integer Param among the selected ones) or '
        'neither x has_aux: value and gradients (incl. dtypes: float0 for the '
        'integer Param) equal jax.value_and_grad with the same flags of the '
        'loss written over the Param values; the forward side effect is '
        'applied once; non-trivial = exactly one flag set')
def grad_flags(case, ctx):
  d, flag = case['d'], case['flag']
  rng = np.random.default_rng(case['seed'])
  holo = flag in ('holomorphic', 'both')
  aint = flag in ('allow_int', 'both')
  wdt = jnp.complex64 if holo else jnp.float32
  w = jnp.asarray(rng.normal(size=(d,)) + (1j * rng.normal(size=(d,))
                                            if holo else 0.0), wdt)
  if aint:
    k = jnp.asarray(rng.integers(1, 4, size=(d,)), jnp.int32)
  else:
    k = jnp.asarray(rng.normal(size=(d,)), wdt)
  x = jnp.asarray(rng.normal(size=(d,)), wdt)

  def pure(vals, xx):
    kk = vals['k'].astype(wdt)
    y = jnp.sum(vals['w'] * vals['w'] * xx * kk)
    return y if holo else y * 1.0

  def loss(m, xx):
    m.calls.value = m.calls.value + 1
    l = pure({'w': m.w.value, 'k': m.k.value}, xx)
    return (l, {'aux': xx * 2}) if case['has_aux'] else l
  kw = dict(holomorphic=holo, allow_int=aint)
  lref, gref = jax.value_and_grad(pure, **kw)({'w': w, 'k': k}, x)
  m = _FlagMod(w, k, jnp.zeros((), jnp.int32))
  tr = nnx.value_and_grad if case['vag'] else nnx.grad
  with sut('nnx grad with holomorphic / allow_int'):
    gf = wrap(tr, loss, case['seed'], has_aux=case['has_aux'], **kw)
    out = gf(m, x)
  if case['vag']:
    val, grads = out
    lval = val[0] if case['has_aux'] else val
    require(close(lval, lref) and jnp.asarray(lval).dtype == lref.dtype,
            lambda: f'value {lval} differs from jax.value_and_grad {lref}')
  else:
    grads = out[0] if case['has_aux'] else out
  flat = {p[-1]: v for p, v in statelib.to_flat_state(grads)}
  require(set(flat) == {'w', 'k'}, lambda: f'gradient holds {sorted(flat)}')
  for name in ('w', 'k'):
    gv = flat[name].value if hasattr(flat[name], 'value') else flat[name]
    require(np.asarray(gv).dtype == np.asarray(gref[name]).dtype, lambda:
            f'gradient of {name} has dtype {np.asarray(gv).dtype}, jax gives '
            f'{np.asarray(gref[name]).dtype}')
    if np.asarray(gv).dtype != jax.dtypes.float0:
      require(np.allclose(np.asarray(gv), np.asarray(gref[name]), rtol=1e-5,
                          atol=1e-6), lambda: f'gradient of {name}: {gv} vs '
              f'jax {gref[name]} (flags {kw})')
  require(int(m.calls.value) == 1, lambda: 'forward side effect applied '
          f'{int(m.calls.value)} times')
  ctx.note(labels=[flag, 'vag' if case['vag'] else 'grad',
                   'aux' if case['has_aux'] else 'noaux'],
           nontrivial=flag in ('holomorphic', 'allow_int'))


# ----------------------------------------------------------------------------
@clause('inconsistent_aliasing',
        strategy=lambda: st.tuples(st.integers(1, 3), st.integers(2, 3),
                                   st.sampled_from([(0, None), (0, 1),
                                                    (None, 0), (0, 0)]),
                                   st.sampled_from(['vmap', 'scan'])),
        quick=60, thorough=600, quick_shards=6, shrink=False,
        rule='the same Module (or two Modules sharing one Variable) is passed '
        'as two arguments under different axis specifications: nnx.vmap / '
        'nnx.scan must raise ValueError (inconsistent aliasing); with equal '
        'specifications the call succeeds and treats them as one object; '
        'non-trivial = specifications differ')
def inconsistent_aliasing(case, ctx):
  d, n, (ax1, ax2), kind = case
  shapes = {k: (n,) + BASE(d)[k] for k in BASE(d)}
  m = Blk(d, shapes)
  other = Blk(d, shapes)
  other.w = m.w          # shared Variable between two modules
  xs = jnp.ones((n, d), jnp.float32)
  def f(a, b, x):
    a.count.value = a.count.value + 1.0
    return x
  def call():
    if kind == 'vmap':
      return nnx.vmap(f, in_axes=(ax1, ax2, 0))(m, other, xs)
    def step(a, b, x):
      a.count.value = a.count.value + 1.0
      return x
    sa = lambda ax: nnx.StateAxes({...: ax})
    return nnx.scan(lambda a, b, x: step(a, b, x), in_axes=(
        sa(ax1), sa(ax2), 0), out_axes=0, length=n)(m, other, xs)
  if ax1 != ax2:
    e = expect_raises(ValueError, call, f'{kind} with axes {ax1} vs {ax2} for '
                      'a shared Variable')
    require('alias' in str(e).lower() or 'prefix' in str(e).lower(),
            lambda: f'unexpected error text: {str(e)[:200]}')
  else:
    with sut(f'{kind} consistent aliasing'):
      call()
    require(m.w is other.w, 'shared Variable was duplicated')
  ctx.note(labels=[kind, 'diff' if ax1 != ax2 else 'same'],
           nontrivial=ax1 != ax2)
