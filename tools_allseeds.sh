#!/bin/bash
# usage: tools_allseeds.sh "<seeds>" [ids...]  — runs quick checks, prints one line each
cd /verif
seeds="$1"; shift
ids="$@"; [ -z "$ids" ] && ids=$(python3 -c "import json; print(' '.join(c['property_id'] for c in json.load(open('MANIFEST.json'))['checks']))")
for s in $seeds; do for p in $ids; do
  out=$(VERIF_SEED=$s ./check $p --no-evidence 2>&1 | grep -v "conda\|^I0000\|^WARNING: All\|KNOWN-FINDING")
  echo "$out" | tail -1
  echo "$out" | grep -A1 "VIOLATION\|HARNESS-ERROR" | cut -c1-300 | head -6
done; done
