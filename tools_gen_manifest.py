"""Generates MANIFEST.json from the table below (keeps it valid at all times)."""
import json, os
ROOT = os.path.dirname(os.path.abspath(__file__))
CHECKS = json.load(open(os.path.join(ROOT, 'manifest_checks.json')))
props = [json.loads(l) for l in open(os.path.join(ROOT, 'properties.jsonl'))]
ids = [p['id'] for p in props]
checks = []
for pid in ids:
  c = CHECKS.get(pid)
  if not c:
    continue
  checks.append({
      'property_id': pid,
      'quick_cmd': f'./check {pid} --tier quick',
      'thorough_cmd': f'./check {pid} --tier thorough',
      'evidence_file': f'evidence/{pid}.json',
      'replay_cmd_template': f'./check {pid} --replay {{path}}',
      'engine': 'pbt-harness',
      'level_claimed': {'category': c.get('category', 'exploration'),
                        'text': c['text'], 'design_ref': c['design_ref']},
      'level_note': c['note'],
      'technique': c['technique'],
  })
na = [{'property_id': pid, 'reason': CHECKS.get('_na', {}).get(
    pid, 'check not built yet in this session (planned, see DESIGN.md section 3)')}
      for pid in ids if pid not in CHECKS]
m = {
    'version': 1,
    'setup_cmd': '/venv/bin/pip install --no-index --find-links /opt/veriftools/wheels hypothesis >/dev/null 2>&1; /venv/bin/python -c "import hypothesis, jax, flax" && mkdir -p out evidence',
    'hooks': {
        'guard': 'GOOGLE_FLAX_VERIF',
        'enable': 'no source hooks: checks monkey-patch from the harness (flax.io, sys.addaudithook, threading in prefetch_iterator); the runner sets GOOGLE_FLAX_VERIF=1 for its workers for uniformity',
        'baseline_off_cmd': 'cd /repo && /venv/bin/python -m pytest -ra -q -p no:cacheprovider --timeout=900 --continue-on-collection-errors',
        'source_commits': [],
        'add_only': True,
    },
    'engines': [{
        'name': 'pbt-harness', 'path': 'harness/',
        'serves_properties': [c['property_id'] for c in checks],
        'kind_free_text': 'Hypothesis-driven property-based testing (generated programs/graphs/histories interpreted against reference models), bounded-exhaustive enumeration of small finite domains, fault/schedule injection by monkey-patching; sharded over 16 worker processes',
    }],
    'checks': checks,
    'not_applicable': na,
    'notes': 'Exit 0 = held on everything explored; 1 = VIOLATION line with replay file; 2 = harness error/inconclusive. VERIF_SEED selects the Hypothesis seed. See DESIGN.md.',
}
json.dump(m, open(os.path.join(ROOT, 'MANIFEST.json'), 'w'), indent=1)
print('checks:', [c['property_id'] for c in checks], 'na:', len(na))
