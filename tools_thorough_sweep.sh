#!/bin/bash
# background thorough sweep on a snapshot of /repo (vp run --with-repo -- ./tools_thorough_sweep.sh [ids...])
cd "$(dirname "$0")"
[ -n "$VP_RUN_REPO" ] && export VERIF_FLAX_TREE="$VP_RUN_REPO"
ids="$@"; [ -z "$ids" ] && ids=$(python3 -c "import json; print(' '.join(c['property_id'] for c in json.load(open('MANIFEST.json'))['checks']))")
for p in $ids; do
  echo "=== $p $(date +%T)"
  ./check $p --tier thorough 2>&1 | grep -v "conda\|^I0000\|^WARNING: All" | cut -c1-600 | tail -12
done
