"""Harness-owned deterministic thread scheduler (DESIGN.md C20).

`FakeThreading(sched)` is a drop-in for the `threading` name inside a module
under test: real OS threads, but only the thread holding the baton runs.  Every
Thread.start, lock acquire/release, Condition.wait/notify and every explicit
`sched.point()` is a decision point at which the scheduler picks the next
runnable thread from a supplied choice sequence.  With a complete choice
sequence the interleaving (at synchronisation-point granularity) is a pure
function of the choices, so schedules can be drawn by Hypothesis or enumerated
exhaustively by DFS.
"""
from __future__ import annotations

import threading as _real


class Deadlock(Exception):
  pass


class _Abort(BaseException):
  pass


class _T:
  def __init__(self, tid, name):
    self.tid = tid
    self.name = name
    self.go = _real.Semaphore(0)
    self.blocked_on = None   # None | ('lock', lock) | ('cond', cond)
    self.finished = False
    self.real = None


class Scheduler:
  def __init__(self, choices=(), max_decisions=10000):
    self.choices = list(choices)
    self.k = 0
    self.trace = []          # (n_options, chosen) at each real decision
    self.threads = []
    self.by_ident = {}
    self.abort = False
    self.max_decisions = max_decisions
    self.errors = []
    main = _T(0, 'main')
    main.real = _real.current_thread()
    self.threads.append(main)
    self.by_ident[_real.get_ident()] = main
    self.current = main
    self.log = []

  # ---- helpers ----
  def me(self):
    return self.by_ident[_real.get_ident()]

  def runnable(self):
    return [t for t in self.threads if not t.finished and t.blocked_on is None]

  def _choose(self, opts):
    if len(opts) == 1:
      return opts[0]
    if self.k < len(self.choices):
      c = self.choices[self.k] % len(opts)
    else:
      c = 0
    self.k += 1
    self.trace.append((len(opts), c))
    if len(self.trace) > self.max_decisions:
      self.abort = True
      raise Deadlock('decision budget exhausted (livelock?)')
    return opts[c]

  def _check_abort(self, me):
    if self.abort:
      if me is self.threads[0]:
        raise (self.errors[0] if self.errors and isinstance(
            self.errors[0], Deadlock) else Deadlock('aborted'))
      raise _Abort()

  def point(self, what=''):
    """Decision point: current thread may be pre-empted."""
    me = self.me()
    self._check_abort(me)
    opts = self.runnable()
    # current first => choice 0 means 'keep running'
    if me in opts:
      opts = [me] + [t for t in opts if t is not me]
    if not opts:
      self._deadlock()
    nxt = self._choose(opts)
    self.log.append((me.tid, what, nxt.tid))
    if nxt is me:
      return
    self.current = nxt
    nxt.go.release()
    me.go.acquire()
    self._check_abort(me)

  def _deadlock(self):
    self.abort = True
    desc = [(t.name, t.blocked_on[0] if t.blocked_on else None, t.finished)
            for t in self.threads]
    for t in self.threads:
      if t is not self.threads[0]:
        t.go.release()
    me = self.me()
    if me is self.threads[0]:
      raise Deadlock(f'no runnable thread: {desc}')
    # wake main so it can report
    self.errors.append(Deadlock(f'no runnable thread: {desc}'))
    self.threads[0].go.release()
    raise _Abort()

  def block(self, reason):
    """Current thread blocks until someone clears blocked_on."""
    me = self.me()
    me.blocked_on = reason
    while me.blocked_on is not None:
      self._check_abort(me)
      opts = self.runnable()
      if not opts:
        self._deadlock()
      nxt = self._choose(opts)
      self.log.append((me.tid, 'block:' + reason[0], nxt.tid))
      self.current = nxt
      nxt.go.release()
      me.go.acquire()
      self._check_abort(me)

  def finish_thread(self):
    me = self.me()
    me.finished = True
    for t in self.threads:
      if t.blocked_on is not None and t.blocked_on[0] == 'join' \
         and t.blocked_on[1] is me:
        t.blocked_on = None
    if self.abort:
      return
    opts = self.runnable()
    if not opts:
      # everyone else is blocked: deadlock for them; wake main to report
      if all(t.finished for t in self.threads):
        return
      self.abort = True
      self.errors.append(Deadlock('thread finished, all others blocked'))
      self.threads[0].go.release()
      return
    nxt = self._choose(opts)
    self.log.append((me.tid, 'finish', nxt.tid))
    self.current = nxt
    nxt.go.release()

  def shutdown(self):
    """Abort any still-parked controlled thread and join them."""
    self.abort = True
    for t in self.threads[1:]:
      t.go.release()
    for t in self.threads[1:]:
      if t.real is not None:
        t.real.join(timeout=5)

  def alive(self):
    return [t for t in self.threads[1:] if not t.finished]


class FakeLock:
  def __init__(self, sched):
    self.s = sched
    self.owner = None

  def acquire(self, blocking=True, timeout=-1):
    s = self.s
    s.point('acquire')
    me = s.me()
    while self.owner is not None:
      s.block(('lock', self))
    self.owner = me
    return True

  def release(self):
    s = self.s
    if s.abort:
      return
    assert self.owner is s.me(), 'release of un-owned lock'
    self.owner = None
    for t in s.threads:
      if t.blocked_on is not None and t.blocked_on[0] == 'lock' \
         and t.blocked_on[1] is self:
        t.blocked_on = None
    s.point('release')

  __enter__ = acquire

  def __exit__(self, *a):
    self.release()


class FakeCondition:
  def __init__(self, sched, lock=None):
    self.s = sched
    self.lock = lock or FakeLock(sched)
    self.waiters = []

  def acquire(self, *a, **k):
    return self.lock.acquire()

  def release(self):
    return self.lock.release()

  def __enter__(self):
    return self.lock.acquire()

  def __exit__(self, *a):
    self.lock.release()

  def wait(self, timeout=None):
    s = self.s
    me = s.me()
    assert self.lock.owner is me, 'wait on un-acquired condition'
    # atomically release the lock and park
    self.lock.owner = None
    for t in s.threads:
      if t.blocked_on is not None and t.blocked_on[0] == 'lock' \
         and t.blocked_on[1] is self.lock:
        t.blocked_on = None
    self.waiters.append(me)
    s.block(('cond', self))
    # notified: re-acquire
    while self.lock.owner is not None:
      s.block(('lock', self.lock))
    self.lock.owner = me
    return True

  def wait_for(self, predicate, timeout=None):
    r = predicate()
    while not r:
      self.wait()
      r = predicate()
    return r

  def notify_all(self):
    s = self.s
    assert self.lock.owner is s.me(), 'notify on un-acquired condition'
    for t in self.waiters:
      t.blocked_on = None
    self.waiters = []

  def notify(self, n=1):
    s = self.s
    assert self.lock.owner is s.me()
    for t in self.waiters[:n]:
      t.blocked_on = None
    self.waiters = self.waiters[n:]


class FakeThread:
  def __init__(self, sched, group=None, target=None, name=None, args=(),
               kwargs=None, daemon=None):
    self.s = sched
    self.target = target
    self.args = args
    self.kwargs = kwargs or {}
    self.daemon = daemon
    self.t = _T(len(sched.threads), name or f'T{len(sched.threads)}')
    self.exc = None

  def _run(self):
    s = self.s
    s.by_ident[_real.get_ident()] = self.t
    self.t.go.acquire()
    try:
      if not s.abort:
        self.target(*self.args, **self.kwargs)
    except _Abort:
      pass
    except BaseException as e:  # noqa
      self.exc = e
      s.errors.append(e)
    finally:
      s.finish_thread()

  def start(self):
    s = self.s
    s.threads.append(self.t)
    self.t.real = _real.Thread(target=self._run, daemon=True)
    self.t.real.start()
    s.point('start')

  def is_alive(self):
    return not self.t.finished

  def join(self, timeout=None):
    s = self.s
    s.point('join')
    while not self.t.finished:
      s.block(('join', self.t))


class FakeThreading:
  """Object to install as the `threading` name of a module under test."""

  def __init__(self, sched):
    self._s = sched

  def Condition(self, lock=None):
    return FakeCondition(self._s, lock)

  def Lock(self):
    return FakeLock(self._s)

  RLock = Lock

  def Thread(self, *a, **k):
    return FakeThread(self._s, *a, **k)

  def current_thread(self):
    return _real.current_thread()

  def get_ident(self):
    return _real.get_ident()


def explore_all(run, max_schedules=100000, preemption_bound=None):
  """DFS over all choice sequences. run(choices) -> trace [(n_options, c)].

  Yields (choices, result_of_run).  `run` must be deterministic given choices.
  """
  stack = [[]]
  count = 0
  while stack:
    prefix = stack.pop()
    trace, result = run(prefix)
    count += 1
    yield prefix, trace, result
    if count >= max_schedules:
      return
    # extend: for each decision after the prefix, branch on alternatives
    for i in range(len(prefix), len(trace)):
      n, c = trace[i]
      base = [t[1] for t in trace[:i]]
      if preemption_bound is not None and \
         sum(1 for c0 in base if c0) >= preemption_bound:
        break
      for alt in range(n):
        if alt != c:
          stack.append(base + [alt])
