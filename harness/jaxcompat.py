"""Environment shim: flax 0.10.5 snapshot vs JAX 0.11.x (see DESIGN.md §1.1).

Touches only `jax`, never flax. Must be imported before flax.
"""
import functools
import os

os.environ.setdefault('JAX_PLATFORMS', 'cpu')
os.environ.setdefault('XLA_FLAGS', '--xla_force_host_platform_device_count=1')
os.environ.setdefault('TF_CPP_MIN_LOG_LEVEL', '3')

import jax
import jax.extend.core

APPLIED = []

if not hasattr(jax.core, 'get_opaque_trace_state') or True:
  try:
    jax.core.get_opaque_trace_state  # may raise AttributeError (removed)
  except AttributeError:
    jax.core.get_opaque_trace_state = jax.extend.core.get_opaque_trace_state
    APPLIED.append('get_opaque_trace_state')


def _wrap_jit(orig):
  @functools.wraps(orig)
  def jit(*args, **kwargs):
    if 'abstracted_axes' in kwargs:
      assert kwargs['abstracted_axes'] is None, 'abstracted_axes unsupported'
      kwargs.pop('abstracted_axes')
    return orig(*args, **kwargs)
  return jit


def _wrap_remat(orig):
  @functools.wraps(orig)
  def checkpoint(*args, **kwargs):
    if 'concrete' in kwargs:
      assert not kwargs['concrete'], 'concrete=True unsupported'
      kwargs.pop('concrete')
    return orig(*args, **kwargs)
  return checkpoint


import inspect as _inspect

try:
  _jit_params = _inspect.signature(jax.jit).parameters
except (TypeError, ValueError):
  _jit_params = {}
if 'abstracted_axes' not in _jit_params:
  jax.jit = _wrap_jit(jax.jit)
  APPLIED.append('jit.abstracted_axes')

try:
  _ck_params = _inspect.signature(jax.checkpoint).parameters
except (TypeError, ValueError):
  _ck_params = {}
if 'concrete' not in _ck_params:
  _w = _wrap_remat(jax.checkpoint)
  jax.checkpoint = _w
  jax.remat = _w
  APPLIED.append('checkpoint.concrete')


def _device_put_replicated(x, devices):
  import numpy as np
  import jax.numpy as jnp
  n = len(devices)
  return jax.tree_util.tree_map(
      lambda a: jnp.stack([jnp.asarray(a)] * n), x)


def _device_put_sharded(shards, devices):
  import jax.numpy as jnp
  return jax.tree_util.tree_map(lambda *xs: jnp.stack(xs), *shards)


for _name, _fn in (('device_put_replicated', _device_put_replicated),
                   ('device_put_sharded', _device_put_sharded)):
  try:
    getattr(jax, _name)
  except AttributeError:
    setattr(jax, _name, _fn)
    APPLIED.append(_name)
