"""Mutation-program DSL for NNX object graphs (DESIGN.md §2.3).

A program is a list of statements interpreted against *whatever objects the
function receives*, so the same program runs eagerly on graph A and under a
transform on its twin B.  Objects are addressed by an index into the list of
reachable nodes / Variables in deterministic (sorted DFS) order, recomputed
before every statement.

Stmt (JSON lists):
  ["set", vpick, a, b]                 v <- a*v + b*x
  ["read", vpick]                      acc += sum(v)
  ["addvar", npick, name, type, c]     node.name = Type(c*x [+ zeros(shape)])
  ["addnode", npick, name, cls]        node.name = Cls() holding a Param
  ["addstatic", npick, name, value]
  ["del", npick, apick]                delete one attribute
  ["rebind", npick, name, kind, tpick] node.name = existing node / Variable
  ["swap", npick, apick, bpick]
  ["readmeta", vpick]                  acc += gain(v) * sum(v), gain = metadata
  ["setmeta", vpick, g]                v.gain = g (in-place metadata edit)
"""
from __future__ import annotations

import jax
import jax.numpy as jnp
import numpy as np
from flax import nnx
from hypothesis import strategies as st

from harness import nnx_graph as G

NEW_NAMES = ['n0', 'n1', 'z', 'a']
STRUCTURAL = {'addvar', 'addnode', 'addstatic', 'del', 'rebind', 'swap',
              'setmeta'}


def reachable(args):
  """(nodes, variables) reachable from the tuple of args, sorted DFS order."""
  nodes, vars_ = [], []
  seen = set()

  def walk(x):
    if isinstance(x, nnx.Variable):
      if id(x) not in seen:
        seen.add(id(x))
        vars_.append(x)
      return
    if isinstance(x, nnx.Object):
      if id(x) in seen:
        return
      seen.add(id(x))
      nodes.append(x)
    ch = G.children(x)
    if ch:
      for _, v in ch:
        walk(v)
  for a in args:
    walk(a)
  return nodes, vars_


def user_attrs(node):
  return sorted(k for k in vars(node) if k != '_object__state')


def build_return(ret, nodes0, vars0):
  """Graph-valued part of the result: objects that were reachable from the
  arguments *before* the program ran (they may have been detached by it),
  returned bare or inside a newly created holder."""
  items = []
  for kind, pick in ret or ():
    if kind == 'node' and nodes0:
      items.append(nodes0[pick % len(nodes0)])
    elif kind == 'var' and vars0:
      items.append(vars0[pick % len(vars0)])
    elif kind == 'holder' and nodes0:
      h = G.NODE_CLS['GA']()
      h.inner = nodes0[pick % len(nodes0)]
      h.tag = 'ret'
      items.append(h)
    elif kind == 'holder_var' and vars0:
      h = G.NODE_CLS['GB']()
      h.v = vars0[pick % len(vars0)]
      items.append(h)
  return tuple(items)


def run_program(prog, args, x, ret=None):
  """Executes the statements; returns the accumulated scalar (and, with
  `ret`, a tuple of graph objects built by build_return)."""
  acc = jnp.zeros((), jnp.float32) + x * 0
  nodes0, vars0 = reachable(args)
  for stmt in prog:
    op = stmt[0]
    nodes, vars_ = reachable(args)
    if op == 'set':
      if vars_:
        v = vars_[stmt[1] % len(vars_)]
        v.value = stmt[2] * v.value + stmt[3] * x
    elif op == 'read':
      if vars_:
        acc = acc + jnp.sum(vars_[stmt[1] % len(vars_)].value)
    elif op == 'readmeta':
      if vars_:
        v = vars_[stmt[1] % len(vars_)]
        # metadata is static Python data: a plain float factor
        acc = acc + float(v.get_metadata().get('gain', 1.0)) * jnp.sum(v.value)
    elif op == 'setmeta':
      if vars_:
        vars_[stmt[1] % len(vars_)].gain = float(stmt[2])
    elif op == 'addvar':
      n = nodes[stmt[1] % len(nodes)]
      setattr(n, stmt[2], G.VAR_CLS[stmt[3]](x * stmt[4] + jnp.zeros((2,))))
    elif op == 'addnode':
      n = nodes[stmt[1] % len(nodes)]
      new = G.NODE_CLS[stmt[3]]()
      new.p = nnx.Param(x + 1.0)
      new.tag = 'fresh'
      setattr(n, stmt[2], new)
    elif op == 'addstatic':
      n = nodes[stmt[1] % len(nodes)]
      setattr(n, stmt[2], stmt[3])
    elif op == 'del':
      n = nodes[stmt[1] % len(nodes)]
      at = user_attrs(n)
      if at:
        delattr(n, at[stmt[2] % len(at)])
    elif op == 'rebind':
      n = nodes[stmt[1] % len(nodes)]
      pool = nodes if stmt[3] == 'node' else vars_
      if pool:
        setattr(n, stmt[2], pool[stmt[4] % len(pool)])
    elif op == 'swap':
      n = nodes[stmt[1] % len(nodes)]
      at = user_attrs(n)
      if len(at) >= 2:
        a, b = at[stmt[2] % len(at)], at[stmt[3] % len(at)]
        va, vb = getattr(n, a), getattr(n, b)
        setattr(n, a, vb)
        setattr(n, b, va)
    else:
      raise AssertionError(op)
  if ret is not None:
    return acc, build_return(ret, nodes0, vars0)
  return acc


def is_structural(prog):
  return any(s[0] in STRUCTURAL for s in prog)


def stmt_strategy(structural=True, meta_edit=False):
  pick = st.integers(0, 20)
  coef = st.sampled_from([-1, 0, 1, 2])
  base = [
      st.tuples(st.just('set'), pick, coef, st.sampled_from([-1, 1, 2])),
      st.tuples(st.just('set'), pick, coef, st.sampled_from([-1, 1, 2])),
      st.tuples(st.just('read'), pick),
      st.tuples(st.just('readmeta'), pick),
  ]
  if meta_edit:
    base += [st.tuples(st.just('setmeta'), pick, st.sampled_from([2, 5, 0.5]))
             ] * 2
  if structural:
    name = st.sampled_from(NEW_NAMES)
    base += [
        st.tuples(st.just('addvar'), pick, name,
                  st.sampled_from(sorted(G.VAR_CLS)), st.sampled_from([1, 2])),
        st.tuples(st.just('addnode'), pick, name,
                  st.sampled_from(sorted(G.NODE_CLS))),
        st.tuples(st.just('addstatic'), pick, name,
                  st.sampled_from([0, 7, 'q'])),
        st.tuples(st.just('del'), pick, pick),
        st.tuples(st.just('rebind'), pick, name,
                  st.sampled_from(['node', 'var']), pick),
        st.tuples(st.just('swap'), pick, pick, pick),
    ]
  return st.one_of(*base).map(list)


def return_strategy():
  return st.lists(st.tuples(st.sampled_from(['node', 'var', 'holder',
                                             'holder', 'holder_var']),
                            st.integers(0, 20)).map(list), max_size=2)


def program_strategy(structural=True, min_size=1, max_size=6,
                     meta_edit=False):
  return st.lists(stmt_strategy(structural, meta_edit), min_size=min_size,
                  max_size=max_size)


def numbering(args):
  """Objects in canonical (sorted DFS) order: nodes list, vars list."""
  return reachable(args)
