"""Fork-per-operation executor with crash injection at file-system events.

The parent ("zygote") imports everything once and never touches the
checkpoint directory through flax/orbax itself; every operation runs in a
forked child which may be killed (`os._exit(137)`) right before its k-th
mutating file-system event (sys.addaudithook).  Completed events persist; the
k-th and later ones did not happen (process-kill crash model, DESIGN C11).
"""
from __future__ import annotations

import os
import pickle
import sys
import select
import time
import signal

MUTATING = {'os.mkdir', 'os.rename', 'os.remove', 'os.rmdir', 'os.link',
            'os.symlink', 'os.truncate'}


def _is_write_open(args):
  mode = args[1]
  flags = args[2] if len(args) > 2 else 0
  if isinstance(mode, str):
    return any(c in mode for c in 'wax+')
  return bool(flags & (os.O_WRONLY | os.O_RDWR | os.O_CREAT | os.O_TRUNC))


def run_child(fn, watch_dir=None, crash_at=None, timeout=180):
  """Runs fn() in a forked child.

  Returns dict(status='ok'|'exc'|'crashed'|'died'|'timeout', value|exc, events).
  """
  watch = os.path.realpath(watch_dir) if watch_dir else None
  r, w = os.pipe()
  sys.stdout.flush()
  sys.stderr.flush()
  pid = os.fork()
  if pid == 0:
    code = 0
    try:
      os.close(r)
      events = []

      def send(obj):
        data = pickle.dumps(obj)
        view = memoryview(data)
        while view:
          n = os.write(w, view)
          view = view[n:]

      if watch is not None:
        def hook(event, args):
          if event == 'open':
            if not args or not isinstance(args[0], (str, bytes, os.PathLike)):
              return
            if not _is_write_open(args):
              return
            path = os.fspath(args[0])
          elif event == 'verif.torn_write':
            path = os.fspath(args[0])
          elif event in MUTATING:
            path = os.fspath(args[0]) if isinstance(
                args[0], (str, bytes, os.PathLike)) else ''
            dir_fd = None
            if event in ('os.remove', 'os.rmdir', 'os.mkdir') and len(args) > 1:
              dir_fd = args[-1]
            if dir_fd is None or dir_fd == -1:
              pass
            else:
              # relative to a directory fd (shutil.rmtree): the child only
              # ever removes trees inside the watched directory
              path = os.path.join(watch, '<fd>', str(path))
          else:
            return
          if isinstance(path, bytes):
            path = path.decode(errors='replace')
          if not os.path.isabs(path):
            path = os.path.abspath(path)
          if not (path == watch or path.startswith(watch + os.sep)):
            rp = os.path.realpath(path)
            if not (rp == watch or rp.startswith(watch + os.sep)):
              return
          extra = ''
          if event == 'os.rename':
            extra = ' -> ' + os.path.relpath(os.fspath(args[1]), watch)
          events.append(event + ' ' + os.path.relpath(path, watch) + extra)
          if crash_at is not None and len(events) == crash_at:
            try:
              send({'status': 'crashed', 'events': events})
            finally:
              os._exit(137)
        sys.addaudithook(hook)
      try:
        val = fn()
        res = {'status': 'ok', 'value': val, 'events': events}
      except BaseException as e:  # noqa
        import traceback
        res = {'status': 'exc', 'exc_type': type(e).__name__,
               'exc': str(e)[:2000], 'tb': traceback.format_exc()[-3000:],
               'events': events}
      send(res)
    except BaseException:  # noqa
      code = 3
    finally:
      os._exit(code)
  os.close(w)
  chunks = []
  deadline = time.time() + timeout
  timed_out = False
  while True:
    left = deadline - time.time()
    if left <= 0:
      timed_out = True
      break
    rl, _, _ = select.select([r], [], [], min(left, 5.0))
    if rl:
      b = os.read(r, 1 << 16)
      if not b:
        break
      chunks.append(b)
  os.close(r)
  if timed_out:
    try:
      os.kill(pid, signal.SIGKILL)
    except ProcessLookupError:
      pass
    os.waitpid(pid, 0)
    return {'status': 'timeout', 'events': []}
  _, st = os.waitpid(pid, 0)
  data = b''.join(chunks)
  if not data:
    return {'status': 'died', 'events': [], 'wait_status': st}
  try:
    return pickle.loads(data)
  except Exception as e:  # noqa
    return {'status': 'died', 'events': [], 'wait_status': st,
            'exc': f'unpicklable result: {e}'}
