"""NNX object-graph specs (DESIGN.md §2.2): build real graphs from data and
compute an independent canonical form.

Spec (JSON):
  {"nodes": [{"cls": "GA"|"GB"|"GC", "attrs": [[name, Val], ...]}, ...],
   "vars":  [{"type": "Param"|"BatchStat"|"Cache"|"Custom", "seed": int,
              "shape": [...], "meta": {"tag": str}|{} }, ...]}
Val:
  {"k":"ref","i":n} | {"k":"var","i":n} | {"k":"arr","seed":s,"shape":[..]}
  | {"k":"static","v":int|str|None|bool} | {"k":"none"}
  | {"k":"list","items":[Val]} | {"k":"tuple","items":[Val]}
  | {"k":"dict","items":[[key,Val]]}
Node 0 is the root.
"""
from __future__ import annotations

import numpy as np
import jax
import jax.numpy as jnp
from flax import nnx
from hypothesis import strategies as st


class GA(nnx.Module):
  pass


class GB(nnx.Module):
  pass


class GC(nnx.Module):
  pass


class Custom(nnx.Variable):
  pass


NODE_CLS = {'GA': GA, 'GB': GB, 'GC': GC}
VAR_CLS = {'Param': nnx.Param, 'BatchStat': nnx.BatchStat, 'Cache': nnx.Cache,
           'Custom': Custom}
ATTR_NAMES = ['a', 'b', 'B', 'a10', 'a2', 'w', 'k']


# value hooks are ordinary Variable metadata: module-level functions so that
# twin graphs carry the very same objects
def hook_get(var, value):
  return value + 1.0


def hook_set(var, value):
  return value - 2.0


HOOKS = {'get': {'on_get_value': hook_get}, 'set': {'on_set_value': hook_set},
         'both': {'on_get_value': hook_get, 'on_set_value': hook_set}}


def arr(seed, shape):
  return jnp.asarray(np.random.default_rng(seed).integers(
      -50, 50, size=tuple(shape)).astype(np.float32))


def build(spec):
  """Returns (root, nodes, variables)."""
  nodes = [NODE_CLS[n['cls']]() for n in spec['nodes']]
  variables = [VAR_CLS[v['type']](arr(v['seed'], v['shape']),
                                  **v.get('meta', {}),
                                  **HOOKS.get(v.get('hook'), {}))
               for v in spec['vars']]

  def val(v):
    k = v['k']
    if k == 'ref':
      return nodes[v['i'] % len(nodes)]
    if k == 'var':
      if not variables:
        return 0
      return variables[v['i'] % len(variables)]
    if k == 'arr':
      a = arr(v['seed'], v['shape'])
      return np.asarray(a) if v.get('np') else a
    if k == 'static':
      return v['v']
    if k == 'none':
      return None
    if k == 'list':
      return [val(x) for x in v['items']]
    if k == 'tuple':
      return tuple(val(x) for x in v['items'])
    if k == 'dict':
      return {key: val(x) for key, x in v['items']}
    raise AssertionError(k)

  for obj, n in zip(nodes, spec['nodes']):
    for name, v in n['attrs']:
      setattr(obj, name, val(v))
  return nodes[0], nodes, variables


# ----------------------------------------------------------------------------
# independent walker
# ----------------------------------------------------------------------------
def is_node(x):
  return isinstance(x, nnx.Object)


def is_var(x):
  return isinstance(x, nnx.Variable)


def children(x):
  """Sorted (key, child) pairs of a graph node or pytree container."""
  if is_node(x):
    return sorted((k, v) for k, v in vars(x).items()
                  if k != '_object__state')
  if isinstance(x, (list, tuple)):
    return list(enumerate(x))
  if isinstance(x, dict):
    return sorted(x.items())
  return None


def leaf_sig(x):
  if isinstance(x, (jax.Array, np.ndarray)):
    a = np.asarray(x)
    if a.dtype.kind == 'f':
      a = a + 0.0          # -0.0 and 0.0 are the same value
    return ('array', str(a.dtype), a.shape, a.tobytes())
  return ('static', type(x).__name__, repr(x))


def var_meta(v):
  md = dict(v.get_metadata()) if hasattr(v, 'get_metadata') else {}
  return tuple(sorted((k, repr(x)) for k, x in md.items()))


def canon(root):
  """Canonical form: isomorphic graphs <=> equal canon.

  Graph nodes and Variables are numbered by identity in DFS (sorted-key)
  order; pytree containers are compared by value.
  """
  node_ids, var_ids = {}, {}
  node_out, var_out = [], []

  def walk(x):
    if is_var(x):
      if id(x) not in var_ids:
        var_ids[id(x)] = len(var_ids)
        var_out.append((type(x).__name__, leaf_sig(x.raw_value), var_meta(x)))
      return ('var', var_ids[id(x)])
    if is_node(x):
      if id(x) in node_ids:
        return ('node', node_ids[id(x)])
      idx = len(node_ids)
      node_ids[id(x)] = idx
      node_out.append(None)
      attrs = tuple((k, walk(v)) for k, v in children(x))
      node_out[idx] = (type(x).__name__, attrs)
      return ('node', idx)
    if isinstance(x, list):
      return ('list', tuple(walk(v) for v in x))
    if isinstance(x, tuple):
      return ('tuple', tuple(walk(v) for v in x))
    if isinstance(x, dict):
      return ('dict', tuple((k, walk(v)) for k, v in sorted(x.items())))
    if x is None:
      return ('none',)
    return leaf_sig(x)

  top = walk(root)
  return (top, tuple(node_out), tuple(var_out))


def identities(root):
  """(set of ids of graph nodes, set of ids of Variables) reachable."""
  nodes, vars_ = {}, {}
  seen = set()

  def walk(x):
    if is_var(x):
      vars_[id(x)] = x
      return
    if is_node(x):
      if id(x) in seen:
        return
      seen.add(id(x))
      nodes[id(x)] = x
    ch = children(x)
    if ch:
      for _, v in ch:
        walk(v)
  walk(root)
  return nodes, vars_


def first_paths(root):
  """Reference for nnx.state: {path: leaf} with every Variable once under the
  first path of the sorted DFS; raw arrays at every path they occur."""
  out = []
  seen_nodes, seen_vars = set(), set()

  def walk(x, path):
    if is_var(x):
      if id(x) not in seen_vars:
        seen_vars.add(id(x))
        out.append((path, x))
      return
    if is_node(x):
      if id(x) in seen_nodes:
        return
      seen_nodes.add(id(x))
    ch = children(x)
    if ch is not None:
      for k, v in ch:
        walk(v, path + (k,))
    elif isinstance(x, (jax.Array, np.ndarray)):
      out.append((path, x))
  walk(root, ())
  return out


def stats(root):
  """(n nodes, n vars, has alias, has cycle)."""
  indeg = {}
  on_stack, done = set(), set()
  cyc = [False]

  def walk(x):
    if is_var(x):
      indeg[id(x)] = indeg.get(id(x), 0) + 1
      return
    if is_node(x):
      indeg[id(x)] = indeg.get(id(x), 0) + 1
      if id(x) in on_stack:
        cyc[0] = True
        return
      if id(x) in done:
        return
      on_stack.add(id(x))
    ch = children(x)
    if ch:
      for _, v in ch:
        walk(v)
    if is_node(x):
      on_stack.discard(id(x))
      done.add(id(x))
  walk(root)
  nodes, vars_ = identities(root)
  alias = any(indeg.get(i, 0) > 1 for i in list(nodes) + list(vars_))
  return len(nodes), len(vars_), alias, cyc[0]


# ----------------------------------------------------------------------------
# strategies
# ----------------------------------------------------------------------------
def val_strategy(n_nodes, n_vars, depth=2, arrays=True, statics=True):
  base = [st.integers(0, max(0, n_nodes - 1)).map(lambda i: {'k': 'ref', 'i': i})]
  if n_vars:
    base.append(st.integers(0, n_vars - 1).map(lambda i: {'k': 'var', 'i': i}))
    base.append(st.integers(0, n_vars - 1).map(lambda i: {'k': 'var', 'i': i}))
  if arrays:
    # raw array attributes: jax arrays or host-side NumPy arrays
    base.append(st.tuples(st.integers(0, 99), st.sampled_from(
        [[], [2], [1, 2]]), st.booleans()).map(
            lambda t: {'k': 'arr', 'seed': t[0], 'shape': t[1],
                       'np': t[2]}))
  if statics:
    base.append(st.sampled_from([0, 1, 'x', 'y', True]).map(
        lambda v: {'k': 'static', 'v': v}))
    base.append(st.just({'k': 'none'}))
  leaf = st.one_of(*base)
  if depth == 0:
    return leaf

  def ext(inner):
    return st.one_of(
        st.lists(inner, max_size=3).map(lambda xs: {'k': 'list', 'items': xs}),
        st.lists(inner, max_size=3).map(lambda xs: {'k': 'tuple', 'items': xs}),
        st.lists(st.tuples(st.sampled_from(['p', 'q', 'Z']), inner),
                 max_size=3, unique_by=lambda kv: kv[0]).map(
                     lambda kv: {'k': 'dict', 'items': [list(x) for x in kv]}),
        st.lists(st.tuples(st.integers(0, 12), inner), max_size=3,
                 unique_by=lambda kv: kv[0]).map(
                     lambda kv: {'k': 'dict', 'items': [list(x) for x in kv]}))
  return st.recursive(leaf, ext, max_leaves=4)


def graph_strategy(max_nodes=6, max_vars=5, max_attrs=3, arrays=True,
                   statics=True, var_shapes=([], [2], [2, 3]), hooks=True):
  def make(nn_, nv):
    var = st.fixed_dictionaries({
        'type': st.sampled_from(sorted(VAR_CLS)),
        'seed': st.integers(0, 99),
        'shape': st.sampled_from(list(var_shapes)),
        'meta': st.one_of(st.just({}), st.sampled_from(['t1', 't2']).map(
            lambda t: {'tag': t})),
        'hook': st.sampled_from([None, None, None, 'get', 'set', 'both'])
        if hooks else st.none(),
    })
    node = st.fixed_dictionaries({
        'cls': st.sampled_from(sorted(NODE_CLS)),
        'attrs': st.lists(
            st.tuples(st.sampled_from(ATTR_NAMES),
                      val_strategy(nn_, nv, arrays=arrays, statics=statics)),
            max_size=max_attrs, unique_by=lambda kv: kv[0]).map(
                lambda kv: [list(x) for x in kv]),
    })
    def connect(d):
      # construction, not rejection: a spanning backbone makes every node
      # reachable and every Variable referenced at least once; the freely
      # drawn attributes above add aliasing, back edges and cycles
      links = d.pop('links')
      for i in range(1, nn_):
        parent = links[i] % i
        d['nodes'][parent]['attrs'] = d['nodes'][parent]['attrs'] + [
            [f'c{i}', {'k': 'ref', 'i': i}]]
      for j in range(nv):
        holder = links[nn_ + j] % nn_
        d['nodes'][holder]['attrs'] = d['nodes'][holder]['attrs'] + [
            [f'v{j}', {'k': 'var', 'i': j}]]
      return d
    return st.fixed_dictionaries({
        'nodes': st.lists(node, min_size=nn_, max_size=nn_),
        'vars': st.lists(var, min_size=nv, max_size=nv),
        'links': st.lists(st.integers(0, 60), min_size=nn_ + nv,
                          max_size=nn_ + nv),
    }).map(connect)
  return st.tuples(st.integers(1, max_nodes), st.integers(0, max_vars)).flatmap(
      lambda t: make(*t))
