"""Runner: ./check <ID> --tier quick|thorough [--replay FILE] (DESIGN.md §1.2)."""
from __future__ import annotations

import argparse
import glob
import json
import os
import subprocess
import sys
import tempfile
import time
from concurrent.futures import ThreadPoolExecutor

ROOT = os.path.dirname(os.path.dirname(os.path.abspath(__file__)))
sys.path.insert(0, ROOT)
if os.environ.get('VERIF_FLAX_TREE'):
  sys.path.insert(0, os.environ['VERIF_FLAX_TREE'])
PY = sys.executable

LEVEL = {'C11': 'fault_enumeration'}

BASE_ASSUMPTIONS = [
    'harness/jaxcompat.py shim (aliases/keyword drops on jax only) is loaded '
    'before flax because the pinned flax 0.10.5 predates the installed JAX',
    'flax is imported from /repo (editable install), single CPU device',
    'results are relative to the generated cases; nothing is proved',
]


def worker_env():
  env = dict(os.environ)
  env['PYTHONHASHSEED'] = '0'
  env['JAX_PLATFORMS'] = 'cpu'
  env.setdefault('XLA_FLAGS', '')
  if 'xla_force_host_platform_device_count' not in env['XLA_FLAGS']:
    env['XLA_FLAGS'] += ' --xla_force_host_platform_device_count=1'
  if 'xla_cpu_multi_thread_eigen' not in env['XLA_FLAGS']:
    env['XLA_FLAGS'] += (' --xla_cpu_multi_thread_eigen=false'
                         ' intra_op_parallelism_threads=1')
  env['OMP_NUM_THREADS'] = '1'
  env['OPENBLAS_NUM_THREADS'] = '1'
  env['MKL_NUM_THREADS'] = '1'
  env['TF_CPP_MIN_LOG_LEVEL'] = '3'
  # VERIF_FLAX_TREE (optional, for background sweeps on a snapshot): import
  # flax from that tree instead of the editable install of /repo
  tree = env.get('VERIF_FLAX_TREE')
  env['PYTHONPATH'] = os.pathsep.join(
      ([tree] if tree else []) + [ROOT, env.get('PYTHONPATH', '')])
  env['PYTHONDONTWRITEBYTECODE'] = '1'
  env['GOOGLE_FLAX_VERIF'] = '1'
  return env


def run_worker(args, timeout, outfile):
  cmd = [PY, '-m', 'harness.worker'] + args + ['--out', outfile]
  try:
    p = subprocess.run(cmd, cwd=ROOT, env=worker_env(), timeout=timeout,
                       stdout=subprocess.PIPE, stderr=subprocess.STDOUT)
    out = p.stdout.decode(errors='replace')
  except subprocess.TimeoutExpired:
    return {'errors': [f'timeout after {timeout}s: {" ".join(args)}'],
            'violations': [], 'evaluations': 0, 'timeout': True}
  if os.path.exists(outfile):
    with open(outfile) as f:
      res = json.load(f)
    os.unlink(outfile)
    return res
  return {'errors': [f'worker died rc={p.returncode}: {" ".join(args)}\n'
                     + out[-3000:]], 'violations': [], 'evaluations': 0}


def load_known(prop):
  path = os.path.join(ROOT, 'known_findings.json')
  if not os.path.exists(path):
    return {}
  with open(path) as f:
    data = json.load(f)
  return {e['key']: e for e in data.get('findings', [])
          if e['property'] == prop}


def main():
  ap = argparse.ArgumentParser()
  ap.add_argument('prop')
  ap.add_argument('--tier', default=os.environ.get('VERIF_TIER', 'quick'))
  ap.add_argument('--replay')
  ap.add_argument('--clause', action='append')
  ap.add_argument('--n', type=int)
  ap.add_argument('--jobs', type=int,
                  default=min(16, os.cpu_count() or 1))
  ap.add_argument('--no-evidence', action='store_true')
  a = ap.parse_args()
  prop = a.prop.upper()
  tier = a.tier if a.tier in ('quick', 'thorough') else 'quick'
  try:
    seed = int(os.environ.get('VERIF_SEED', '1'))
  except ValueError:
    seed = 1
  t0 = time.time()
  tmpdir = tempfile.mkdtemp(prefix='verif_', dir=os.path.join(ROOT, 'out')
                            if os.path.isdir(os.path.join(ROOT, 'out'))
                            else None)
  known = load_known(prop)

  if a.replay:
    out = os.path.join(tmpdir, 'replay.json')
    res = run_worker(['--prop', prop, '--replay', os.path.abspath(a.replay),
                      '--tier', tier, '--seed', str(seed)], 3600, out)
    return finish(prop, tier, seed, [res], known, t0, None,
                  write_evidence=False)

  from harness import jaxcompat  # noqa
  from harness import core
  try:
    clauses = core.load(prop)
  except Exception as e:  # noqa
    import traceback
    traceback.print_exc()
    print(f'HARNESS-ERROR property={prop} cannot load clauses: {e}')
    return 2
  if a.clause:
    clauses = [c for c in clauses if c.name in a.clause]
  mod = sys.modules[f'props.{prop.lower()}']

  jobs = []
  # committed replays first
  rdir = os.path.join(ROOT, 'replays', prop)
  for i, rp in enumerate(sorted(glob.glob(os.path.join(rdir, '*.json')))):
    if a.clause:
      with open(rp) as f:
        if json.load(f).get('clause') not in a.clause:
          continue
    jobs.append((['--prop', prop, '--replay', rp, '--tier', tier,
                  '--seed', str(seed)], f'replay{i}'))
  timeout = 2400 if tier == 'quick' else 8 * 3600
  for cl in clauses:
    ns = cl.quick_shards if tier == 'quick' else cl.thorough_shards
    ns = max(1, min(ns, a.jobs if cl.enum is None else ns))
    for s in range(ns):
      args = ['--prop', prop, '--clause', cl.name, '--shard', str(s),
              '--nshards', str(ns), '--tier', tier, '--seed', str(seed)]
      if a.n is not None:
        args += ['--n', str(a.n)]
      jobs.append((args, f'{cl.name}_{s}'))

  results = []
  with ThreadPoolExecutor(max_workers=a.jobs) as ex:
    futs = [ex.submit(run_worker, args, timeout,
                      os.path.join(tmpdir, f'{tag}.json'))
            for args, tag in jobs]
    for f in futs:
      results.append(f.result())
  try:
    os.rmdir(tmpdir)
  except OSError:
    pass
  return finish(prop, tier, seed, results, known, t0,
                (clauses, mod), write_evidence=not a.no_evidence)


def finish(prop, tier, seed, results, known, t0, meta, write_evidence):
  violations, errors, known_lines = [], [], []
  for r in results:
    for v in r.get('violations', []):
      k = v.get('key')
      if k and k in known and known[k].get('status') == 'known':
        known_lines.append((k, known[k].get('what', v.get('msg', ''))))
      else:
        violations.append(v)
    errors.extend(r.get('errors', []))

  if write_evidence and meta is not None:
    clauses, mod = meta
    write_evidence_file(prop, tier, seed, results, clauses, mod,
                        len(violations), time.time() - t0, known_lines)

  seen = set()
  for k, what in known_lines:
    if k not in seen:
      seen.add(k)
      print(f'KNOWN-FINDING: property={prop} {k}: {what}')
  for v in violations:
    print(f'VIOLATION property={prop} replay={v.get("replay")}')
    print(f'  clause={v.get("clause")} message={v.get("msg")}')
  for e in errors:
    print(f'HARNESS-ERROR property={prop}: {e}')
  total = sum(r.get('evaluations', 0) for r in results)
  print(f'{prop} tier={tier} seed={seed} evaluations={total} '
        f'violations={len(violations)} errors={len(errors)} '
        f'wall={time.time() - t0:.1f}s')
  if violations:
    return 1
  if errors:
    return 2
  return 0


def write_evidence_file(prop, tier, seed, results, clauses, mod, nviol, wall,
                        known_lines):
  per = {}
  nontriv = set()
  samples = []
  total = 0
  for r in results:
    name = r.get('clause')
    if name is None:
      continue
    d = per.setdefault(name, {'evaluations': 0, 'distinct_nontrivial': set(),
                              'classes': {}, 'excluded': {}, 'shards': 0,
                              'wall_s': 0.0})
    d['evaluations'] += r.get('evaluations', 0)
    d['shards'] += 1
    d['wall_s'] = max(d['wall_s'], r.get('wall_s', 0.0))
    total += r.get('evaluations', 0)
    for h in r.get('nontrivial', []):
      d['distinct_nontrivial'].add(h)
      nontriv.add(f'{name}:{h}')
    for k, v in r.get('labels', {}).items():
      d['classes'][k] = d['classes'].get(k, 0) + v
    for k, v in r.get('excluded', {}).items():
      d['excluded'][k] = d['excluded'].get(k, 0) + v
    for s in r.get('samples', []):
      if sum(1 for x in samples if x['clause'] == name) < 2:
        samples.append({'clause': name, 'case': s})
    if r.get('extra'):
      d.setdefault('extra', {}).update(r['extra'])
  rules = []
  cl_by = {c.name: c for c in clauses}
  all_exh = bool(clauses)
  for name, d in per.items():
    d['distinct_nontrivial'] = len(d['distinct_nontrivial'])
    d['wall_s'] = round(d['wall_s'], 2)
    c = cl_by.get(name)
    if c is not None:
      d['exhaustive'] = bool(c.exhaustive)
      d['rule'] = c.rule
      if c.rule:
        rules.append(f'[{name}] {c.rule}')
      all_exh = all_exh and c.exhaustive
  ev = {
      'property_id': prop, 'tier': tier, 'seed': seed,
      'level': LEVEL.get(prop, 'exploration'),
      'coverage': {
          'evaluations': total,
          'distinct_nontrivial': len(nontriv),
          'rule': ' ; '.join(rules) or getattr(mod, 'RULE', ''),
          'samples': samples[:12] or [{'note': 'no non-trivial sample'}],
          'clauses': per,
          'exhaustive': bool(all_exh),
          'known_findings_reported': sorted({k for k, _ in known_lines}),
      },
      'assumptions': BASE_ASSUMPTIONS + list(getattr(mod, 'ASSUMPTIONS', [])),
      'wall_s': round(wall, 2),
      'violations': nviol,
  }
  os.makedirs(os.path.join(ROOT, 'evidence'), exist_ok=True)
  with open(os.path.join(ROOT, 'evidence', f'{prop}.json'), 'w') as f:
    json.dump(ev, f, indent=1, sort_keys=True)


if __name__ == '__main__':
  os.makedirs(os.path.join(ROOT, 'out'), exist_ok=True)
  sys.exit(main())
