"""Worker: runs one clause shard (or one replay) in a fresh process."""
from __future__ import annotations

import argparse
import hashlib
import json
import os
import sys
import time
import traceback

ROOT = os.path.dirname(os.path.dirname(os.path.abspath(__file__)))
sys.path.insert(0, ROOT)

from harness import jaxcompat  # noqa: E402  (must precede flax)
from harness import core  # noqa: E402
from harness.core import Violation, HarnessError, Ctx  # noqa: E402


def derive_seed(seed, prop, clause, shard):
  h = hashlib.sha1(f'{seed}:{prop}:{clause}:{shard}'.encode()).hexdigest()
  return int(h[:8], 16)


def write_replay(prop, clause_name, case, msg, seed, key=None):
  d = os.path.join(ROOT, 'out', 'violations')
  os.makedirs(d, exist_ok=True)
  h = core.case_hash(case)
  path = os.path.join(d, f'{prop}_{clause_name}_{h}.json')
  with open(path, 'w') as f:
    json.dump({'property': prop, 'clause': clause_name, 'case': case,
               'seed': seed, 'message': msg, 'key': key}, f,
              default=core._json_default, indent=1)
  return os.path.relpath(path, ROOT)


def run_hypothesis(cl, ctx, n, hseed, shrink, skip_first=False):
  import hypothesis
  from hypothesis import given, settings, HealthCheck, Phase
  phases = [Phase.explicit, Phase.generate]
  if shrink:
    phases.append(Phase.shrink)
  last = {}
  state = {'first': skip_first}
  if skip_first:
    n += 1

  @hypothesis.seed(hseed)
  @settings(max_examples=n, database=None, deadline=None,
            derandomize=False, report_multiple_bugs=False,
            phases=phases, print_blob=False,
            suppress_health_check=list(HealthCheck))
  @given(cl.strategy())
  def t(case):
    if state['first']:
      # Hypothesis starts every run with the simplest example; on shards > 0
      # that would only repeat shard 0's first case.
      state['first'] = False
      return
    case = core.jsonify(case)
    ctx.evaluations += 1
    ctx.current_case = case
    try:
      cl.check(case, ctx)
    except Violation as v:
      last['case'] = case
      last['msg'] = str(v)
      last['key'] = v.key
      raise

  try:
    t()
  except Violation:
    return last
  except hypothesis.errors.Flaky as e:
    # the oracle reported a violation on a real execution, but re-executing
    # the same case immediately did not reproduce it: the behaviour depends
    # on process state left by earlier cases (e.g. a module-level cache)
    if last:
      last['msg'] += (' [state-dependent: not reproduced when the case was '
                      're-executed in the same process]')
      return last
    raise
  return None


def run_enum(cl, ctx):
  for i, case in enumerate(cl.enum(ctx)):
    if i % ctx.nshards != ctx.shard:
      continue
    case = core.jsonify(case)
    ctx.evaluations += 1
    ctx.current_case = case
    try:
      cl.check(case, ctx)
    except Violation as v:
      return {'case': case, 'msg': str(v), 'key': v.key}
  return None


def main():
  ap = argparse.ArgumentParser()
  ap.add_argument('--prop', required=True)
  ap.add_argument('--clause')
  ap.add_argument('--shard', type=int, default=0)
  ap.add_argument('--nshards', type=int, default=1)
  ap.add_argument('--tier', default='quick')
  ap.add_argument('--seed', type=int, default=1)
  ap.add_argument('--n', type=int, default=None)
  ap.add_argument('--out')
  ap.add_argument('--replay')
  a = ap.parse_args()

  t0 = time.time()
  res = {'prop': a.prop, 'clause': a.clause, 'shard': a.shard,
         'violations': [], 'errors': [], 'evaluations': 0}
  try:
    clauses = {c.name: c for c in core.load(a.prop)}
    if a.replay:
      with open(a.replay) as f:
        rp = json.load(f)
      cl = clauses[rp['clause']]
      a.clause = cl.name
    else:
      cl = clauses[a.clause]
    import jax
    jax.config.update('jax_enable_x64', bool(cl.x64))
    ctx = Ctx(prop=a.prop, clause=cl.name, tier=a.tier, shard=a.shard,
              nshards=a.nshards, seed=a.seed)
    if cl.setup is not None:
      cl.setup(ctx)
    if a.replay:
      case = core.jsonify(rp['case'])
      ctx.evaluations += 1
      ctx.current_case = case
      try:
        cl.check(case, ctx)
        fail = None
      except Violation as v:
        fail = {'case': case, 'msg': str(v), 'key': v.key or rp.get('key')}
      if fail:
        fail['replay'] = os.path.relpath(os.path.abspath(a.replay), ROOT)
        fail['clause'] = cl.name
        res['violations'].append(fail)
    else:
      n = a.n if a.n is not None else (
          cl.quick if a.tier == 'quick' else cl.thorough)
      per = max(1, -(-n // a.nshards))
      hseed = derive_seed(a.seed, a.prop, cl.name, a.shard)
      if cl.enum is not None:
        fail = run_enum(cl, ctx)
      else:
        shrink = cl.shrink or a.tier == 'thorough'
        fail = run_hypothesis(cl, ctx, per, hseed, shrink,
                              skip_first=a.shard > 0)
      if fail:
        fail['clause'] = cl.name
        fail['replay'] = write_replay(a.prop, cl.name, fail['case'],
                                      fail['msg'], a.seed, fail.get('key'))
        res['violations'].append(fail)
    res.update(ctx.result())
  except Exception as e:  # harness error
    res['errors'].append(
        f'{type(e).__name__}: {e}\n{traceback.format_exc()[-3000:]}')
  res['wall_s'] = time.time() - t0
  if a.out:
    with open(a.out, 'w') as f:
      json.dump(res, f, default=core._json_default)
  else:
    json.dump({k: v for k, v in res.items() if k != 'nontrivial'},
              sys.stdout, default=core._json_default, indent=1)
    print()
  sys.stdout.flush()
  sys.stderr.flush()
  os._exit(1 if res['violations'] else (2 if res['errors'] else 0))


if __name__ == '__main__':
  main()
