"""Core of the property-based checking harness (DESIGN.md §1.2-1.4).

A *property module* (props/cXX.py) registers clauses:

    from harness.core import clause, Violation, sut
    @clause('name', strategy=lambda: st..., quick=500, thorough=20000)
    def check(case, ctx): ...

`case` is always the JSON round-trip of the generated value, so a replay file
re-executes exactly what Hypothesis executed.  `ctx.note(...)` records labels
and non-triviality for the evidence file.  Raise `Violation` (or let an
exception escape from a `with sut():` block) to report a property violation;
any other exception is a harness error (exit 2), never a violation.
"""
from __future__ import annotations

import contextlib
import hashlib
import json
import traceback
from collections import Counter
from dataclasses import dataclass, field
from typing import Any, Callable


class Violation(AssertionError):
  def __init__(self, msg, key=None):
    super().__init__(msg)
    self.key = key


class HarnessError(Exception):
  pass


@contextlib.contextmanager
def sut(what=''):
  """Code under test: unexpected exceptions inside are violations."""
  try:
    yield
  except (Violation, HarnessError, KeyboardInterrupt, SystemExit):
    raise
  except BaseException as e:  # noqa
    tb = traceback.extract_tb(e.__traceback__)
    where = ''
    for fr in reversed(tb):
      if '/flax/' in fr.filename:
        where = f' at {fr.filename.split("/flax/", 1)[1]}:{fr.lineno}'
        break
    raise Violation(
        f'unexpected {type(e).__name__}{where} in {what}: {str(e)[:400]}'
    ) from e


def expect_raises(exc_types, fn, what=''):
  """fn() must raise one of exc_types; returns the exception."""
  try:
    fn()
  except exc_types as e:
    return e
  except (Violation, HarnessError, KeyboardInterrupt, SystemExit):
    raise
  except BaseException as e:  # noqa
    raise Violation(
        f'{what}: expected {_names(exc_types)}, got {type(e).__name__}: '
        f'{str(e)[:300]}') from e
  raise Violation(f'{what}: expected {_names(exc_types)}, nothing raised')


def _names(t):
  if isinstance(t, tuple):
    return '|'.join(x.__name__ for x in t)
  return t.__name__


def require(cond, msg, key=None):
  if not cond:
    raise Violation(msg() if callable(msg) else msg, key=key)


def jsonify(x):
  return json.loads(json.dumps(x, default=_json_default))


def _json_default(o):
  import numpy as np
  if isinstance(o, (np.integer,)):
    return int(o)
  if isinstance(o, (np.floating,)):
    return float(o)
  if isinstance(o, np.ndarray):
    return o.tolist()
  if isinstance(o, (set, frozenset)):
    return sorted(o, key=repr)
  if isinstance(o, bytes):
    return {'__bytes__': o.hex()}
  raise TypeError(f'not JSON serialisable: {type(o)}')


def case_hash(case):
  return hashlib.sha1(
      json.dumps(case, sort_keys=True, default=_json_default).encode()
  ).hexdigest()[:12]


@dataclass
class Ctx:
  prop: str
  clause: str
  tier: str
  shard: int = 0
  nshards: int = 1
  seed: int = 1
  evaluations: int = 0
  labels: Counter = field(default_factory=Counter)
  excluded: Counter = field(default_factory=Counter)
  nontrivial: set = field(default_factory=set)
  samples: list = field(default_factory=list)
  current_case: Any = None
  known_hits: Counter = field(default_factory=Counter)
  extra: dict = field(default_factory=dict)
  max_samples: int = 3

  def note(self, labels=(), nontrivial=False, case=None):
    for l in labels:
      self.labels[l] += 1
    if nontrivial:
      c = self.current_case if case is None else case
      h = case_hash(c)
      if h not in self.nontrivial:
        self.nontrivial.add(h)
        if len(self.samples) < self.max_samples:
          s = json.dumps(c, default=_json_default)
          if len(s) < 4000:
            self.samples.append(json.loads(s))

  def exclude(self, why):
    self.excluded[why] += 1

  def result(self):
    return {
        'prop': self.prop, 'clause': self.clause, 'shard': self.shard,
        'evaluations': self.evaluations,
        'labels': dict(self.labels), 'excluded': dict(self.excluded),
        'nontrivial': sorted(self.nontrivial), 'samples': self.samples,
        'known_hits': dict(self.known_hits), 'extra': self.extra,
    }


@dataclass
class Clause:
  name: str
  check: Callable
  strategy: Callable | None = None   # () -> hypothesis strategy
  enum: Callable | None = None       # (ctx) -> iterable of cases
  quick: int = 200
  thorough: int = 5000
  quick_shards: int = 1
  thorough_shards: int = 8
  shrink: bool = True
  x64: bool = False
  rule: str = ''
  exhaustive: bool = False
  setup: Callable | None = None      # called once in the worker before cases
  max_shrinks: int | None = None


REGISTRY: dict[str, list[Clause]] = {}
_CURRENT_PROP = [None]


def begin(prop):
  _CURRENT_PROP[0] = prop
  REGISTRY[prop] = []


def clause(name, **kw):
  def deco(fn):
    REGISTRY[_CURRENT_PROP[0]].append(Clause(name=name, check=fn, **kw))
    return fn
  return deco


def load(prop):
  import importlib
  importlib.import_module(f'props.{prop.lower()}')
  return REGISTRY[prop]
