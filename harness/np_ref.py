"""float64 NumPy references written from the layers' documented formulas."""
from __future__ import annotations

import itertools
import math

import numpy as np


def same_pads(size, k_eff, stride):
  out = -(-size // stride)
  total = max((out - 1) * stride + k_eff - size, 0)
  return total // 2, total - total // 2


def resolve_padding(padding, spatial, kernel, strides, k_dil):
  """-> (mode, [(lo, hi)] per spatial dim); mode in zero/wrap/reflect."""
  nd = len(kernel)
  k_eff = [(k - 1) * d + 1 for k, d in zip(kernel, k_dil)]
  if isinstance(padding, str):
    if padding == 'VALID':
      return 'zero', [(0, 0)] * nd
    if padding == 'SAME':
      return 'zero', [same_pads(s, k, st) for s, k, st in zip(spatial, k_eff,
                                                              strides)]
    if padding in ('CIRCULAR', 'REFLECT'):
      return ('wrap' if padding == 'CIRCULAR' else 'reflect',
              [((k - 1) // 2, k // 2) for k in k_eff])
    if padding == 'CAUSAL':
      assert nd == 1
      return 'zero', [(k_eff[0] - 1, 0)]
    raise ValueError(padding)
  if isinstance(padding, int):
    return 'zero', [(padding, padding)] * nd
  out = []
  for p in padding:
    out.append((p, p) if isinstance(p, int) else tuple(p))
  return 'zero', out


def dilate(x, axis, d):
  if d == 1:
    return x
  n = x.shape[axis]
  shape = list(x.shape)
  shape[axis] = (n - 1) * d + 1
  out = np.zeros(shape, x.dtype)
  idx = [slice(None)] * x.ndim
  idx[axis] = slice(0, None, d)
  out[tuple(idx)] = x
  return out


def conv(x, kernel, bias, strides, padding, in_dil, k_dil, groups):
  """x: (B, *S, Cin); kernel: (*k, Cin//groups, F). Direct sum."""
  x = np.asarray(x, np.float64)
  kernel = np.asarray(kernel, np.float64)
  nd = kernel.ndim - 2
  ksz = kernel.shape[:nd]
  B, Cin, F = x.shape[0], x.shape[-1], kernel.shape[-1]
  mode, pads = resolve_padding(padding, x.shape[1:-1], ksz, strides, k_dil)
  if mode == 'zero':
    for ax in range(nd):
      x = dilate(x, 1 + ax, in_dil[ax])
    x = np.pad(x, [(0, 0)] + list(pads) + [(0, 0)])
  else:
    assert all(d == 1 for d in in_dil)
    x = np.pad(x, [(0, 0)] + list(pads) + [(0, 0)], mode=mode)
  S = x.shape[1:-1]
  k_eff = [(k - 1) * d + 1 for k, d in zip(ksz, k_dil)]
  out_sp = [(s - k) // st + 1 for s, k, st in zip(S, k_eff, strides)]
  if any(o <= 0 for o in out_sp):
    out_sp = [max(o, 0) for o in out_sp]
  y = np.zeros((B, *out_sp, F))
  cg, fg = Cin // groups, F // groups
  for o in itertools.product(*[range(n) for n in out_sp]):
    acc = np.zeros((B, F))
    for t in itertools.product(*[range(k) for k in ksz]):
      pos = tuple(oi * st + ti * kd for oi, st, ti, kd in zip(o, strides, t,
                                                              k_dil))
      xv = x[(slice(None),) + pos]            # (B, Cin)
      kv = kernel[t]                          # (Cin//g, F)
      for g in range(groups):
        acc[:, g * fg:(g + 1) * fg] += xv[:, g * cg:(g + 1) * cg] @ kv[
            :, g * fg:(g + 1) * fg]
    y[(slice(None),) + o] = acc
  if bias is not None:
    y = y + np.asarray(bias, np.float64)
  return y


def pool(x, window, strides, padding, kind, count_include_pad=True):
  """x: (B, *S, C)."""
  x = np.asarray(x, np.float64)
  nd = len(window)
  strides = strides or (1,) * nd
  if padding == 'VALID':
    pads = [(0, 0)] * nd
  elif padding == 'SAME':
    pads = [same_pads(s, k, st) for s, k, st in zip(x.shape[1:-1], window,
                                                    strides)]
  else:
    pads = [tuple(p) for p in padding]
  fill = {'avg': 0.0, 'max': -np.inf, 'min': np.inf}[kind]
  xp = np.pad(x, [(0, 0)] + pads + [(0, 0)], constant_values=fill)
  valid = np.pad(np.ones(x.shape), [(0, 0)] + pads + [(0, 0)])
  S = xp.shape[1:-1]
  out_sp = [(s - k) // st + 1 for s, k, st in zip(S, window, strides)]
  y = np.zeros((x.shape[0], *out_sp, x.shape[-1]))
  for o in itertools.product(*[range(n) for n in out_sp]):
    sl = (slice(None),) + tuple(slice(oi * st, oi * st + k) for oi, st, k in
                                zip(o, strides, window)) + (slice(None),)
    win = xp[sl]
    axes = tuple(range(1, 1 + nd))
    if kind == 'avg':
      s = win.sum(axis=axes)
      if count_include_pad:
        y[(slice(None),) + o] = s / np.prod(window)
      else:
        y[(slice(None),) + o] = s / valid[sl].sum(axis=axes)
    elif kind == 'max':
      y[(slice(None),) + o] = win.max(axis=axes)
    else:
      y[(slice(None),) + o] = win.min(axis=axes)
  return y


def moments(x, axes, mask=None):
  x = np.asarray(x, np.float64)
  if mask is None:
    mean = x.mean(axis=axes, keepdims=True)
    var = ((x - mean) ** 2).mean(axis=axes, keepdims=True)
  else:
    m = np.broadcast_to(np.asarray(mask, np.float64), x.shape)
    cnt = m.sum(axis=axes, keepdims=True)
    mean = (x * m).sum(axis=axes, keepdims=True) / cnt
    var = (((x - mean) ** 2) * m).sum(axis=axes, keepdims=True) / cnt
  return mean, var


def normalize(x, mean, var, eps, scale=None, bias=None):
  y = (np.asarray(x, np.float64) - mean) / np.sqrt(var + eps)
  if scale is not None:
    y = y * scale
  if bias is not None:
    y = y + bias
  return y
