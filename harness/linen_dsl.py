"""Linen program DSL (DESIGN.md §2.1): programs are data, one generic Module
family interprets them, and an independent reference predicts structure.

Program (JSON):
  {"style": "compact"|"setup", "cls": "A"|"B", "ops": [Op, ...]}
Op:
  {"op":"dense","name":str|None,"attr":"attr"|"list"|"dict"}
  {"op":"param","name":str,"shape":[...]}          x *= 1 + mean(p)
  {"op":"counter","col":c,"name":n}                 += 1 when mutable; x += v/8
  {"op":"stat","col":c,"name":n,"m":momentum}       running mean of x
  {"op":"sow","col":c,"name":n}
  {"op":"perturb","name":n}
  {"op":"rng","stream":s}                           x += uniform(make_rng(s))
  {"op":"sub","prog":Prog,"name":str|None,"calls":k,"attr":...}
  {"op":"reuse","i":int}     call an already created child again
  {"op":"shared","j":int}    call a module instance passed in as attribute
  {"op":"write","col":c,"name":n}                   put_variable
  {"op":"tanh"}
All Dense layers are D->D so every program preserves the feature size D.
"""
from __future__ import annotations

import dataclasses
from typing import Any

import numpy as np
import jax
import jax.numpy as jnp
import flax.linen as nn
from hypothesis import strategies as st

REC = []          # (path, kind, name, key_data) recorded draws, eager only
TRACE = []        # generic side-channel (trace counters etc.)


def is_tracer(x):
  return isinstance(x, jax.core.Tracer)


def key_data(key):
  if is_tracer(key):
    return None
  try:
    return tuple(int(v) for v in np.asarray(jax.random.key_data(key)).ravel())
  except Exception:  # noqa
    return tuple(int(v) for v in np.asarray(key).ravel())


def freeze_json(x):
  if isinstance(x, dict):
    return tuple(sorted((k, freeze_json(v)) for k, v in x.items()))
  if isinstance(x, (list, tuple)):
    return tuple(freeze_json(v) for v in x)
  return x


def thaw(x):
  """Inverse of freeze_json for programs (dicts are tuples of pairs)."""
  if isinstance(x, tuple) and x and all(
      isinstance(e, tuple) and len(e) == 2 and isinstance(e[0], str)
      for e in x):
    return {k: thaw(v) for k, v in x}
  if isinstance(x, tuple):
    return [thaw(v) for v in x]
  return x


def _param_init(mod, name):
  def init(key, shape, dtype=jnp.float32):
    if not is_tracer(key):
      REC.append((tuple(mod.path), 'param', name, key_data(key)))
    return jax.random.normal(key, shape, dtype)
  return init


class _Node(nn.Module):
  spec: Any = None
  shared: tuple = ()
  dim: int = 2
  # with two or more shared-in modules the last one travels in its own
  # attribute, declared after `shared` but sorting before it: module-valued
  # attributes in more than one field, declaration order != sorted order
  peer: Any = None

  def scaled(self, x, k=2.0):
    """A second entry point (apply(..., method=...))."""
    return self(x) * k

  def then_put(self, x):
    """Entry point that touches a new collection only after __call__ has
    returned."""
    y = self(x)
    if self.is_mutable_collection('late'):
      self.put_variable('late', 'v', jnp.sum(y))
    return y

  def all_shared(self):
    return tuple(self.shared) + ((self.peer,) if self.peer is not None else ())

  # -- helpers -------------------------------------------------------------
  def _prog(self):
    return thaw(self.spec)

  def _make_child(self, op, parent=dataclasses.MISSING):
    tr = op.get('tr')
    if tr in ('map_id', 'map_id_filter'):
      tr = tr + ('_init' if self.is_initializing() else '_apply')
    return make_module(op['prog'], self.dim, shared=self.all_shared(),
                       name=op.get('name'), tr=tr, parent=parent)

  def _run(self, x, ops, objs):
    children = []
    for i, op in enumerate(ops):
      k = op['op']
      if k == 'dense':
        m = objs[i] if objs is not None else nn.Dense(
            self.dim, name=op.get('name'),
            kernel_init=_param_init_k(self, op.get('name')))
        x = m(x)
      elif k == 'param':
        p = objs[i] if objs is not None else self.param(
            op['name'], _param_init(self, op['name']), tuple(op['shape']))
        x = x * (1.0 + jnp.mean(p))
      elif k == 'counter':
        v = objs[i] if objs is not None else self.variable(
            op['col'], op['name'], lambda: jnp.zeros((), jnp.int32))
        if self.is_mutable_collection(op['col']):
          v.value = v.value + 1
        x = x + v.value.astype(x.dtype) * 0.125
      elif k == 'stat':
        v = objs[i] if objs is not None else self.variable(
            op['col'], op['name'], lambda: jnp.zeros((), jnp.float32))
        if self.is_mutable_collection(op['col']):
          v.value = op['m'] * v.value + (1 - op['m']) * jnp.mean(x)
        x = x + v.value
      elif k == 'listvar':
        # a variable whose value is a Python list of arrays, used with list
        # operations (a tuple in its place would raise)
        v = objs[i] if objs is not None else self.variable(
            op['col'], op['name'],
            lambda: [jnp.zeros((), jnp.float32), jnp.ones((), jnp.float32)])
        hist = v.value + [jnp.mean(x)]
        if self.is_mutable_collection(op['col']):
          v.value = hist[1:]
        x = x + 0.25 * hist[0] + 0.5 * hist[1]
      elif k == 'sow':
        self.sow(op['col'], op['name'], x)
      elif k == 'perturb':
        # the perturbed value need not be float32; the casts stay when the
        # perturb call itself is stripped (op 'cast')
        dt = op.get('dtype')
        p = self.perturb(op['name'], x.astype(dt) if dt else x)
        # what follows depends on the dtype of the value handed back
        x = p.astype(x.dtype) + 0.0078125 * p.dtype.itemsize
      elif k == 'cast':
        p = x.astype(op['dtype'])
        x = p.astype(x.dtype) + 0.0078125 * p.dtype.itemsize
      elif k == 'rng':
        key = self.make_rng(op['stream'])
        if not is_tracer(key):
          REC.append((tuple(self.path), 'rng', op['stream'], key_data(key)))
        x = x + jax.random.uniform(key, ())
      elif k == 'sub':
        child = objs[i] if objs is not None else self._make_child(op)
        for _ in range(op.get('calls', 1)):
          x = child(x)
        children.append(child)
      elif k == 'reuse':
        if children:
          x = children[op['i'] % len(children)](x)
      elif k == 'nested':
        # a functional init/apply of an unrelated module from inside this
        # module's method; how many collections it returns feeds the output
        inner = make_module(op['prog'], self.dim, parent=None)
        v = inner.init(jax.random.key(7), x)
        y, upd = inner.apply(v, x, mutable=True)
        x = y + 0.03125 * len(jax.tree_util.tree_leaves(upd))
      elif k == 'shared':
        sh = self.all_shared()
        if sh:
          x = sh[op['j'] % len(sh)](x)
      elif k == 'write':
        self.put_variable(op['col'], op['name'], jnp.sum(x))
      elif k == 'tanh':
        x = jnp.tanh(x)
      elif k in ('cond', 'switch'):
        scales = [2.0, -1.0, 0.5]
        def mk(scale, op=op):
          def fn(mdl, xx):
            child = mdl._make_child(op, parent=mdl)
            return child(xx) * scale
          return fn
        if k == 'cond':
          pred = jnp.sum(x) > op['thr']
          if op['plain']:
            x = mk(scales[0])(self, x) if bool(pred) else mk(scales[1])(self, x)
          else:
            x = nn.cond(pred, mk(scales[0]), mk(scales[1]), self, x)
        else:
          idx = op['k'] % 3
          if op['plain']:
            x = mk(scales[idx])(self, x)
          else:
            x = nn.switch(jnp.asarray(idx), [mk(sc) for sc in scales], self, x)
      elif k == 'while':
        child = self._make_child(op)
        x = child(x)           # variables must exist before the loop
        n = op['n']
        if op['plain']:
          for _ in range(n):
            x = child(x)
        else:
          def cond_fn(mdl, c):
            return c[0] < n
          def body_fn(mdl, c, op=op):
            i, xx = c
            return i + 1, mdl._make_child(op, parent=mdl)(xx)
          _, x = nn.while_loop(cond_fn, body_fn, self, (jnp.asarray(0), x),
                               carry_variables=list(op['carry']),
                               broadcast_variables=True)
      else:
        raise AssertionError(k)
    return x


def _param_init_k(mod, name):
  def init(key, shape, dtype=jnp.float32):
    if not is_tracer(key):
      REC.append((tuple(mod.path) + ((name,) if name else ('<dense>',)),
                  'param', 'kernel', key_data(key)))
    return jax.random.normal(key, shape, dtype) * 0.5
  return init


TRACE_ON = [False]


def _trace_call(mod, x, y):
  if TRACE_ON[0] and not is_tracer(x) and not is_tracer(y):
    TRACE.append((tuple(mod.path), np.asarray(x), np.asarray(y)))


CALLS = {}


class _Compact(_Node):
  @nn.compact
  def __call__(self, x):
    CALLS[type(self).__name__] = CALLS.get(type(self).__name__, 0) + 1
    y = self._run(x, self._prog()['ops'], None)
    _trace_call(self, x, y)
    return y


class _Setup(_Node):
  def setup(self):
    ops = self._prog()['ops']
    objs = {}
    lst, dct = [], {}
    for i, op in enumerate(ops):
      k = op['op']
      if k in ('dense', 'sub'):
        m = nn.Dense(self.dim, kernel_init=_param_init_k(self, None)) \
            if k == 'dense' else make_module(op['prog'], self.dim,
                                             shared=self.all_shared())
        kind = op.get('attr', 'attr')
        if kind == 'list':
          lst.append((i, m))
        elif kind == 'dict':
          dct[f'k{i}'] = (i, m)
        else:
          setattr(self, f'm{i}', m)
          objs[i] = getattr(self, f'm{i}')
      elif k == 'param':
        objs[i] = self.param(op['name'], _param_init(self, op['name']),
                             tuple(op['shape']))
      elif k == 'counter':
        objs[i] = self.variable(op['col'], op['name'],
                                lambda: jnp.zeros((), jnp.int32))
      elif k == 'stat':
        objs[i] = self.variable(op['col'], op['name'],
                                lambda: jnp.zeros((), jnp.float32))
    if lst:
      self.lst = [m for _, m in lst]
      for (i, _), m in zip(lst, self.lst):
        objs[i] = m
    if dct:
      self.dct = {k: m for k, (_, m) in dct.items()}
      for k, (i, _) in dct.items():
        objs[i] = self.dct[k]
    self._objs = objs

  def __call__(self, x):
    ops = self._prog()['ops']
    objs = [self._objs.get(i) for i in range(len(ops))]
    y = self._run(x, ops, objs)
    _trace_call(self, x, y)
    return y


CLASSES = {}
for _style, _base in (('compact', _Compact), ('setup', _Setup)):
  for _c in ('A', 'B', 'W'):
    _name = f'Node{_c}' if _style == 'compact' else f'Setup{_c}'
    CLASSES[(_style, _c)] = type(_name, (_base,), {})


def class_name(prog):
  return CLASSES[(prog['style'], prog['cls'])].__name__


TRANSFORMED = {}


def transformed_class(cls, tr):
  key = (cls, tr)
  if key not in TRANSFORMED:
    if tr == 'jit':
      TRANSFORMED[key] = nn.jit(cls)
    elif tr == 'remat':
      TRANSFORMED[key] = nn.remat(cls)
    elif tr in ('map_id_init', 'map_id_apply'):
      # the documented idiom: init=self.is_initializing()
      ini = tr == 'map_id_init'
      TRANSFORMED[key] = nn.map_variables(
          cls, 'params', trans_in_fn=lambda v: v, trans_out_fn=lambda v: v,
          mutable=ini, init=ini)
    elif tr in ('map_id_filter_init', 'map_id_filter_apply'):
      # the same idiom with the rngs / variables lifting filters spelled out
      # (every stream and collection a program can use is named)
      ini = tr == 'map_id_filter_init'
      TRANSFORMED[key] = nn.map_variables(
          cls, 'params', trans_in_fn=lambda v: v, trans_out_fn=lambda v: v,
          mutable=ini, init=ini, rngs=['params'] + STREAMS,
          variables=STATE_COLS + SOW_COLS + ['perturbations', 'late'])
    elif tr == 'jit_filter':
      TRANSFORMED[key] = nn.jit(cls, variables=['params'] + STATE_COLS +
                                SOW_COLS + ['perturbations'], rngs=True)
    else:
      raise AssertionError(tr)
  return TRANSFORMED[key]


TR_PREFIX = {'jit': 'Jit', 'jit_filter': 'Jit', 'remat': 'Checkpoint',
             'map_id': 'Map_variables', 'map_id_filter': 'Map_variables'}
ALL_TR = ['jit', 'jit_filter', 'remat', 'map_id', 'map_id_filter']


def make_module(prog, dim, shared=(), name=None, parent=dataclasses.MISSING,
                tr=None):
  cls = CLASSES[(prog['style'], prog['cls'])]
  if tr:
    cls = transformed_class(cls, tr)
  kw = {}
  if name is not None:
    kw['name'] = name
  if parent is not dataclasses.MISSING:
    kw['parent'] = parent
  shared = tuple(shared)
  if len(shared) >= 2:
    kw['peer'] = shared[-1]
    shared = shared[:-1]
  return cls(spec=freeze_json(prog), shared=shared, dim=dim, **kw)


def shared_name(j, n):
  """Name under which the root adopts shared module j of n."""
  return 'peer' if n >= 2 and j == n - 1 else f'shared_{j}'


def make_root(case):
  """case: {"dim": D, "prog": Prog, "shared": [Prog,...]}"""
  shared = tuple(make_module(p, case['dim'], parent=None)
                 for p in case.get('shared', []))
  return make_module(case['prog'], case['dim'], shared=shared, parent=None)


# ----------------------------------------------------------------------------
# reference: expected variable tree structure
# ----------------------------------------------------------------------------
class Clash(Exception):
  pass


def setup_attr_name(i, op, lst_pos, dict_key):
  kind = op.get('attr', 'attr')
  if kind == 'list':
    return f'lst_{lst_pos}'
  if kind == 'dict':
    return f'dct_{dict_key}'
  return f'm{i}'


def expected_tree(case, mutable_cols=None, include_sow=True):
  """{col: {path tuple: (shape, dtype)}} created by init.

  Raises Clash if the program contains a name clash within a scope.
  """
  D = case['dim']
  out = {}
  done_shared = set()

  def add(col, path, shape, dtype):
    out.setdefault(col, {})
    if path in out[col]:
      raise Clash(f'{col}:{path}')
    out[col][path] = (tuple(shape), dtype)

  def walk(prog, path, is_root):
    names = set()        # child-module names and variable names in this scope
    var_names = {}       # col -> set of names
    counters = {}
    lst_pos = 0
    children = []
    used = False

    def take(name, kind, col=None):
      # submodule names clash with anything; variables clash with submodules
      # and with variables of the same collection
      if kind == 'module':
        if name in names or any(name in v for v in var_names.values()):
          raise Clash(name)
        names.add(name)
      else:
        if name in names or name in var_names.get(col, set()):
          raise Clash(name)
        var_names.setdefault(col, set()).add(name)

    for i, op in enumerate(prog['ops']):
      k = op['op']
      if k in ('dense', 'sub'):
        if prog['style'] == 'setup':
          kind = op.get('attr', 'attr')
          if kind == 'list':
            name = f'lst_{lst_pos}'
            lst_pos += 1
          elif kind == 'dict':
            name = f'dct_k{i}'
          else:
            name = f'm{i}'
        else:
          name = op.get('name')
          if name is None:
            prefix = 'Dense' if k == 'dense' else class_name(op['prog'])
            n = counters.get(prefix, 0)
            counters[prefix] = n + 1
            name = f'{prefix}_{n}'
        take(name, 'module')
        if k == 'dense':
          add('params', path + (name, 'kernel'), (D, D), 'float32')
          add('params', path + (name, 'bias'), (D,), 'float32')
        else:
          children.append(name)
          walk(op['prog'], path + (name,), False)
      elif k == 'param':
        take(op['name'], 'var', 'params')
        add('params', path + (op['name'],), op['shape'], 'float32')
      elif k == 'counter':
        take(op['name'], 'var', op['col'])
        add(op['col'], path + (op['name'],), (), 'int32')
      elif k == 'stat':
        take(op['name'], 'var', op['col'])
        add(op['col'], path + (op['name'],), (), 'float32')
      elif k == 'sow' and include_sow:
        out.setdefault(op['col'], {}).setdefault(path + (op['name'],), 'sow')
      elif k == 'perturb' and include_sow:
        out.setdefault('perturbations', {}).setdefault(
            path + (op['name'],), 'perturb')
      elif k == 'shared':
        progs = case.get('shared', [])
        if progs:
          j = op['j'] % len(progs)
          if j not in done_shared:
            done_shared.add(j)
            walk(progs[j], (shared_name(j, len(progs)),), False)

  walk(case['prog'], (), True)
  return out


def uses(prog, kinds, case=None, seen=None):
  """True if the program (recursively) contains an op of one of `kinds`."""
  for op in prog['ops']:
    if op['op'] in kinds:
      return True
    if op['op'] == 'sub' and uses(op['prog'], kinds, case):
      return True
    if op['op'] == 'shared' and case is not None:
      for p in case.get('shared', []):
        if uses(p, kinds, None):
          return True
  return False


def collect(prog, kind, case=None):
  out = []
  for op in prog['ops']:
    if op['op'] == kind:
      out.append(op)
    if op['op'] == 'sub':
      out += collect(op['prog'], kind, case)
  if case is not None:
    for p in case.get('shared', []):
      out += collect(p, kind, None)
  return out


def strip(prog, kinds):
  """Program with ops of `kinds` removed (recursively)."""
  ops = []
  for op in prog['ops']:
    if op['op'] in kinds:
      if op['op'] == 'perturb':
        ops.append({'op': 'cast', 'dtype': op.get('dtype') or 'float32'})
      continue
    if op['op'] == 'sub':
      op = dict(op, prog=strip(op['prog'], kinds))
    ops.append(op)
  return dict(prog, ops=ops)


# ----------------------------------------------------------------------------
# strategies
# ----------------------------------------------------------------------------
EXPLICIT = ['enc', 'dec', 'head', 'blk']
VARNAMES = ['w', 'v', 'count', 'mean']
# 'stats' is a proper substring of 'batch_stats': string filters must compare
# whole names
STATE_COLS = ['batch_stats', 'cache', 'counters', 'stats']
SOW_COLS = ['intermediates', 'aux']
STREAMS = ['dropout', 'noise']


def op_strategy(inner, allow, style):
  attr = st.sampled_from(['attr', 'list', 'dict'])
  name = st.one_of(st.none(), st.sampled_from(EXPLICIT)) \
      if style == 'compact' else st.none()
  opts = []
  opts.append(st.tuples(name, attr).map(
      lambda t: {'op': 'dense', 'name': t[0], 'attr': t[1]}))
  opts.append(st.tuples(st.sampled_from(VARNAMES), st.sampled_from(
      [[], [1], [2], [2, 2]])).map(
          lambda t: {'op': 'param', 'name': t[0], 'shape': t[1]}))
  if 'counter' in allow:
    opts.append(st.tuples(st.sampled_from(STATE_COLS),
                          st.sampled_from(VARNAMES)).map(
        lambda t: {'op': 'counter', 'col': t[0], 'name': t[1]}))
  if 'stat' in allow:
    opts.append(st.tuples(st.sampled_from(STATE_COLS),
                          st.sampled_from(VARNAMES),
                          st.sampled_from([0.5, 0.9])).map(
        lambda t: {'op': 'stat', 'col': t[0], 'name': t[1], 'm': t[2]}))
  if 'listvar' in allow and style == 'compact':
    opts.append(st.sampled_from(['h', 'hist']).map(
        lambda n: {'op': 'listvar', 'col': 'cache', 'name': n}))
  if 'sow' in allow and style == 'compact':
    # (a sown name may equal the name of a param / variable of another
    # collection in the same scope: legal)
    opts.append(st.tuples(st.sampled_from(SOW_COLS),
                          st.sampled_from(['s0', 's1', 'w', 'v'])).map(
        lambda t: {'op': 'sow', 'col': t[0], 'name': t[1]}))
  if 'perturb' in allow and style == 'compact':
    # (one dtype per name: a perturbation variable is shared by name)
    opts.append(st.sampled_from([('p0', None), ('p1', None),
                                 ('pb', 'bfloat16'), ('ph', 'float16'),
                                 ('pi', 'int32')]).map(
        lambda t: {'op': 'perturb', 'name': t[0], 'dtype': t[1]}))
  if 'rng' in allow and style == 'compact':
    opts.append(st.sampled_from(STREAMS).map(
        lambda s: {'op': 'rng', 'stream': s}))
  if 'tanh' in allow:
    opts.append(st.just({'op': 'tanh'}))
  if 'nested' in allow and style == 'compact':
    opts.append(st.lists(st.sampled_from([
        {'op': 'dense', 'name': None, 'attr': 'attr'}, {'op': 'tanh'},
        {'op': 'counter', 'col': 'counters', 'name': 'n'},
        {'op': 'sow', 'col': 'aux', 'name': 's0'}]), min_size=1,
                         max_size=3).map(lambda ops: {
                             'op': 'nested', 'prog': dedupe_names({
                                 'style': 'compact', 'cls': 'B',
                                 'ops': [dict(o) for o in ops]})}))
  if inner is not None:
    opts.append(st.tuples(inner, name, st.integers(1, 3), attr).map(
        lambda t: {'op': 'sub', 'prog': t[0], 'name': t[1], 'calls': t[2],
                   'attr': t[3]}))
    if style == 'compact':
      opts.append(st.integers(0, 3).map(lambda i: {'op': 'reuse', 'i': i}))
  if 'shared' in allow and style == 'compact':
    opts.append(st.integers(0, 3).map(lambda j: {'op': 'shared', 'j': j}))
  return st.one_of(*opts)


def dedupe_names(prog):
  """Make a generated program clash-free by renaming (construction, not
  rejection): explicit module names and variable names get a suffix on reuse
  within one scope."""
  seen_mod, seen_var = set(), {}
  ops = []
  for op in prog['ops']:
    op = dict(op)
    k = op['op']
    if k in ('dense', 'sub') and op.get('name') is not None:
      n = op['name']
      while n in seen_mod:
        n = n + 'x'
      seen_mod.add(n)
      op['name'] = n
    if k in ('param', 'counter', 'stat'):
      col = 'params' if k == 'param' else op['col']
      n = op['name']
      while n in seen_var.get(col, set()) or n in seen_mod:
        n = n + 'x'
      seen_var.setdefault(col, set()).add(n)
      op['name'] = n
    if k == 'sub':
      op['prog'] = dedupe_names(op['prog'])
    ops.append(op)
  # module names must not collide with variable names either
  allvars = set().union(*seen_var.values()) if seen_var else set()
  for op in ops:
    if op['op'] in ('dense', 'sub') and op.get('name') in allvars:
      n = op['name']
      while n in allvars or n in seen_mod - {op['name']}:
        n = n + 'y'
      op['name'] = n
  return dict(prog, ops=ops)


def prog_strategy(allow=('counter', 'stat', 'sow', 'perturb', 'tanh'),
                  max_depth=3, max_ops=5, styles=('compact', 'setup')):
  def level(depth):
    inner = level(depth - 1) if depth > 0 else None
    return st.sampled_from(styles).flatmap(lambda style: st.tuples(
        st.just(style), st.sampled_from(['A', 'B']),
        st.lists(op_strategy(inner, allow, style), min_size=1,
                 max_size=max_ops)).map(
                     lambda t: {'style': t[0], 'cls': t[1], 'ops': t[2]}))
  return level(max_depth).map(dedupe_names)


def case_strategy(allow=('counter', 'stat', 'sow', 'perturb', 'tanh',
                         'shared'), max_depth=3, max_ops=5,
                  styles=('compact', 'setup')):
  shared_allow = tuple(a for a in allow if a not in ('shared',))
  return st.fixed_dictionaries({
      'dim': st.integers(1, 3),
      'prog': prog_strategy(allow, max_depth, max_ops, styles),
      'shared': st.lists(prog_strategy(shared_allow, 1, 3, ('compact',)),
                         max_size=2) if 'shared' in allow else st.just([]),
      'batch': st.lists(st.integers(1, 3), max_size=2),
      'xseed': st.integers(0, 2**16),
      'seed': st.integers(0, 2**16),
  })


def make_input(case):
  rng = np.random.default_rng(case['xseed'])
  shape = tuple(case.get('batch', [])) + (case['dim'],)
  return jnp.asarray(rng.normal(size=shape), jnp.float32)


def flat(tree, prefix=()):
  """Flatten a nested (Frozen)dict to {path tuple: leaf}."""
  out = {}
  for k in tree.keys():
    v = tree[k]
    if hasattr(v, 'keys'):
      out.update(flat(v, prefix + (k,)))
    else:
      out[prefix + (k,)] = v
  return out


def normalize_case(case):
  """Drop shared programs no 'shared' op reaches; re-index the ops."""
  progs = case.get('shared', [])
  if not progs:
    return dict(case, shared=[])
  n = len(progs)
  used = sorted({op['j'] % n for op in collect(case['prog'], 'shared')})
  remap = {u: i for i, u in enumerate(used)}

  def rewrite(prog):
    ops = []
    for op in prog['ops']:
      if op['op'] == 'shared':
        op = dict(op, j=remap[op['j'] % n])
      elif op['op'] == 'sub':
        op = dict(op, prog=rewrite(op['prog']))
      ops.append(op)
    return dict(prog, ops=ops)

  if not used:
    return dict(case, shared=[])
  return dict(case, prog=rewrite(case['prog']), shared=[progs[u] for u in used])
